import OxyModel.Proofs.Rebal.Serve
import OxyModel.Props.C01

/-!
# C02 — traffic is routed only to current pool members (balancer and rebalancer)

Property theorems only (helper lemmas: `OxyModel/Proofs/Pool`, `OxyModel/Proofs/Rebal`).  Model:
`RB.Sys` (`Model/Rebalancer.lean`) = a bare `RoundRobin` (`viaRb = false`) or a `Rebalancer` over a
`RoundRobin` (`viaRb = true`), with an explicit object heap (`Model/Pool.lean`).  A history is any list
of `RB.Op`: add / update (with or without weight, negative weights), remove (known or unknown),
`NextServer`, requests (sticky cookie, downstream handler rewriting `req.URL`), meter readings and
clock steps.  `RB.specOf v hist : Key → Option Nat` is the set defined by the add / update / remove
calls of the history (with the configured weights).
-/
namespace C02
open RB PoolM RR

/-- the system after a history, from a fresh instance -/
def reach (viaRb sticky : Bool) (backoff : Nat) (newReady : Bool) (hist : List Op) : Sys :=
  (Sys.init viaRb sticky backoff newReady).applyOps hist

private theorem reach_spec (v st : Bool) (bo : Nat) (nr : Bool) (hist : List Op) :
    (reach v st bo nr hist).Inv ∧ (reach v st bo nr hist).Refines (specOf v hist) ∧
    (reach v st bo nr hist).viaRb = v ∧ (reach v st bo nr hist).sticky = st := by
  obtain ⟨a, b, c⟩ := Sys.applyOps_spec hist (Sys.init_inv v st bo nr) (Sys.init_refines v st bo nr)
  exact ⟨a, b, c.viaRb, c.sticky⟩

/-- **C02 (membership, bare balancer)**: after every prefix of every history — repeated adds,
    removes of unknown servers, requests, URL-rewriting handlers included — a key is in the pool iff
    the add / update / remove calls so far define it, with exactly the configured weight. -/
theorem C02_refines_set (sticky : Bool) (bo : Nat) (nr : Bool) (hist : List Op) (k : Key) :
    (k ∈ (reach false sticky bo nr hist).bal.view.keys ↔ (specOf false hist k).isSome) ∧
    (reach false sticky bo nr hist).bal.weight k = specOf false hist k ∧
    (reach false sticky bo nr hist).bal.view.keys.Nodup := by
  obtain ⟨hi, hr, hv, _⟩ := reach_spec false sticky bo nr hist
  have hc := hr k
  unfold Sys.configured at hc
  rw [hv] at hc
  refine ⟨?_, hc, hi.bal.nodup⟩
  rw [← Sys.configured_mem hi, hr k]

/-- **C02 (membership, through the rebalancer)**: identically — and the rebalancer's own records are
    the same servers in the same order, each remembering exactly the configured weight. -/
theorem C02_refines_set_rebalancer (sticky : Bool) (bo : Nat) (nr : Bool) (hist : List Op) (k : Key) :
    (k ∈ (reach true sticky bo nr hist).bal.view.keys ↔ (specOf true hist k).isSome) ∧
    (reach true sticky bo nr hist).reb.configured k = specOf true hist k ∧
    (reach true sticky bo nr hist).reb.servers.map Rec.key = (reach true sticky bo nr hist).bal.view.keys ∧
    (reach true sticky bo nr hist).bal.view.keys.Nodup := by
  obtain ⟨hi, hr, hv, _⟩ := reach_spec true sticky bo nr hist
  have hc := hr k
  unfold Sys.configured at hc
  rw [hv] at hc
  refine ⟨?_, hc, (hi.reb hv).keys, hi.bal.nodup⟩
  rw [← Sys.configured_mem hi, hr k]

/-- **C02 (only members receive traffic)**: whatever `NextServer()` returns or a request is
    forwarded to is one of the URLs stored in the pool at that moment (hence a member by
    `C02_refines_set`), for both front ends. -/
theorem C02_selected_is_member (v st : Bool) (bo : Nat) (nr : Bool) (hist : List Op) (op : Op) (x : URL)
    (hx : ((reach v st bo nr hist).step op).2.routedTo = some x) :
    x ∈ (reach v st bo nr hist).servers ∧ (specOf v hist x.key).isSome := by
  obtain ⟨hi, hr, _, _⟩ := reach_spec v st bo nr hist
  have hm := (Sys.routed_member hi op hx).1
  refine ⟨hm, ?_⟩
  rw [← hr, Sys.configured_mem hi]
  exact Sys.servers_keys _ hm

/-- **C02 (removed ⇒ never selected until re-added)**: after `remove u` — whether it succeeded or
    the server was unknown — no later `NextServer()` and no later request (sticky or not) is routed to
    a URL with `u`'s key, along any continuation that does not add that key again. -/
theorem C02_removed_never_selected (v st : Bool) (bo : Nat) (nr : Bool) (hist tail : List Op) (u : URL)
    (hno : ∀ op ∈ tail, ¬ op.upsertsKey u.key) :
    ∀ out ∈ ((reach v st bo nr hist).step (.remove u)).1.outs tail, ∀ x, out.routedTo = some x → x.key ≠ u.key := by
  obtain ⟨hi, hr, _, _⟩ := reach_spec v st bo nr hist
  obtain ⟨a, b, _, _, _⟩ := Sys.remove_spec hi hr u
  apply Sys.absent_never_routed tail a _ hno
  rw [← Sys.configured_mem a, b u.key]
  simp [Spec.remove]

/-- **C02 (added ⇒ selected within one full rotation)**: after a successful add / update that leaves
    server `u` with positive weight `x`, every run of `W = Σw/gcd` consecutive `NextServer()` calls —
    starting after any number `j` of earlier calls — returns `u`'s stored URL at least once.
    (Corollary of `C01.C01_window`; the pool may have any history.) -/
theorem C02_added_within_rotation (v st : Bool) (bo : Nat) (nr : Bool) (hist : List Op) (u : URL) (w : Option Nat)
    (x : Nat) (hx : 0 < x) (j : Nat) :
    let s1 := ((reach v st bo nr hist).step (.upsert u (w.map Int.ofNat))).1
    s1.bal.weight u.key = some x →
    ∃ out ∈ (s1.applyOps (List.replicate j .next)).outs (List.replicate (C01.W s1.bal.ws) .next),
      ∃ y, out.routedTo = some y ∧ y.key = u.key := by
  intro s1 hw
  obtain ⟨hi, hr, _, _⟩ := reach_spec v st bo nr hist
  have hs1 : (reach v st bo nr hist).step (.upsert u (w.map Int.ofNat)) =
      ((if (reach v st bo nr hist).viaRb then { reach v st bo nr hist with reb := (reach v st bo nr hist).reb.upsert (reach v st bo nr hist).now u w }
        else (reach v st bo nr hist).withBal ((reach v st bo nr hist).bal.upsert u w)), .ok) := by
    cases w <;> rfl
  have hinv1 : s1.Inv := (Sys.step_spec hi hr _).1
  have hit : s1.bal.it = It.reset := by
    show ((reach v st bo nr hist).step (.upsert u (w.map Int.ofNat))).1.bal.it = _
    rw [hs1]; exact Sys.upsert_it hi u w
  obtain ⟨i, hik, hk, hwi⟩ := (Pool.weight_some hinv1.bal.view).mp hw
  have hiw : i < s1.bal.ws.length := by
    have h := hinv1.bal.view.len
    rw [Bal.view_ws] at h
    rw [h]; exact hik
  have hwi' : s1.bal.ws[i] = x := hwi
  have hpos : ∃ w' ∈ s1.bal.ws, 0 < w' := ⟨x, hwi' ▸ List.getElem_mem hiw, hx⟩
  obtain ⟨a1, a2, a3, a4⟩ := Sys.applyOps_nexts j hinv1
  rw [Sys.outs_nexts _ a1, a2, a3, a4, hit]
  have hcount := C01.C01_window s1.bal.ws hpos i j
  have hgd : s1.bal.ws.getD i 0 = x := by simp [List.getD_eq_getElem?_getD, hiw, hwi']
  have hmx : 0 < maxW s1.bal.ws := lt_of_lt_of_le hx (hwi' ▸ le_maxW (List.getElem_mem hiw))
  have hdiv : 0 < x / gcdW s1.bal.ws :=
    Nat.div_pos (Nat.le_of_dvd hx (hwi' ▸ gcdW_dvd (List.getElem_mem hiw))) (gcdW_pos hmx)
  rw [hgd] at hcount
  have hmem : Res.sel i ∈ run s1.bal.ws (C01.W s1.bal.ws) (after s1.bal.ws j It.reset) :=
    List.count_pos_iff.mp (by rw [hcount]; exact hdiv)
  refine ⟨nextOut s1.servers (.sel i), List.mem_map.mpr ⟨_, hmem, rfl⟩, s1.servers.getD i default, rfl, ?_⟩
  have hlen : i < s1.servers.length := by
    have : s1.bal.view.keys.length = s1.servers.length := by simp [Bal.view_keys, Sys.servers]
    rw [← this]; exact hik
  have : s1.bal.view.keys[i] = (s1.servers.getD i default).key := by
    have hlen' : i < s1.bal.urls.length := hlen
    simp [Bal.view_keys, Sys.servers, List.getD_eq_getElem?_getD, List.getElem?_eq_getElem hlen']
  rw [← this]; exact hk

/-- **C02 (an add that fails changes nothing)**: when the rebalancer's meter factory fails for a server
    it has no record of, `UpsertServer` returns the error, the server is not a member (the balancer
    insert is rolled back), the stored URLs and all weights are as before, and the set defined by the
    administration calls is unchanged — so every other theorem applies to histories with failed adds. -/
theorem C02_failed_add_noop (st : Bool) (bo : Nat) (nr : Bool) (hist : List Op) (u : URL) (w : Option Nat)
    (hu : specOf true hist u.key = none) :
    ((reach true st bo nr hist).step (.upsertFailing u w)).2 = .errMeter ∧
    ((reach true st bo nr hist).step (.upsertFailing u w)).1.servers = (reach true st bo nr hist).servers ∧
    ((reach true st bo nr hist).step (.upsertFailing u w)).1.bal.ws = (reach true st bo nr hist).bal.ws ∧
    specOf true (hist ++ [.upsertFailing u w]) = specOf true hist := by
  obtain ⟨hi, hr, hv, _⟩ := reach_spec true st bo nr hist
  have hspec : specOf true (hist ++ [.upsertFailing u w]) = specOf true hist := by
    unfold specOf; rw [List.foldl_append]
    simp only [List.foldl_cons, List.foldl_nil, specStep]
    have : (List.foldl (specStep true) Spec.empty hist) u.key = none := hu
    rw [this]; rfl
  generalize reach true st bo nr hist = s at *
  have hf : s.reb.find u.key = none := by
    have := hr u.key
    unfold Sys.configured at this
    rw [if_pos hv, hu] at this
    unfold Reb.configured at this
    rw [Reb.find_eq, Pool.find_none, ← Pool.weight_none]; exact this
  have e : s.step (.upsertFailing u w) = ({ s with reb := s.reb.upsertMeterFails u w }, .errMeter) := by
    simp only [Sys.step, hv, hf, Option.isNone_none, Bool.and_self, if_true]
  rw [e]
  obtain ⟨_, _, _, _, i5, i6⟩ := Reb.upsertMeterFails_spec (hi.reb hv) u w hf
  exact ⟨rfl, i5, i6, hspec⟩

/-- **C02 (removing an unknown server fails and changes nothing)**: the whole state is untouched. -/
theorem C02_remove_unknown_noop (v st : Bool) (bo : Nat) (nr : Bool) (hist : List Op) (u : URL)
    (hu : specOf v hist u.key = none) :
    (reach v st bo nr hist).step (.remove u) = (reach v st bo nr hist, .errNotFound) := by
  obtain ⟨hi, hr, _, _⟩ := reach_spec v st bo nr hist
  apply (Sys.remove_spec hi hr u).2.2.2.1
  rw [← Sys.configured_mem hi, hr, hu]
  simp

/-- **C02 (empty pool ⇒ error response)**: with no member defined, every request — any cookie, any
    handler — gets the error response, the downstream handler is not called, nothing changes;
    `NextServer()` fails likewise. -/
theorem C02_empty_is_error (v st : Bool) (bo : Nat) (nr : Bool) (hist : List Op) (hz : ∀ k, specOf v hist k = none)
    (cookie : Option Key) (mt : Option Mut) :
    (reach v st bo nr hist).step (.serve cookie mt) = (reach v st bo nr hist, .failed .errNoServers) ∧
    ((reach v st bo nr hist).step .next).2 = .next .errNoServers none := by
  obtain ⟨hi, hr, _, _⟩ := reach_spec v st bo nr hist
  obtain ⟨hrefs, hws⟩ := Sys.keys_nil_of_spec hi hr hz
  generalize reach v st bo nr hist = s at *
  have hnext : next s.bal.ws s.bal.it = (.errNoServers, s.bal.it) := by rw [hws]; rfl
  have hstuck : s.bal.stuckRef s.sticky cookie = none := by
    unfold Bal.stuckRef
    split
    · split
      · rw [Bal.findRef_none]; simp [Bal.view_keys, Bal.urls, hrefs]
      · rfl
    · rfl
  obtain ⟨e1, e2⟩ := Bal.route_unstuck_err hstuck (e := .errNoServers) (by rw [hnext]) (by simp)
  constructor
  · unfold Sys.step
    simp only
    rw [e1]
    simp only
    rw [e2, hnext]
    rfl
  · rw [(Sys.step_next_out hi).1, hnext]; rfl

/-
Full clause: "an all-zero-weight pool produces an error response instead of a forwarded request",
for every request.  The code does not satisfy it for a request *pinned by a sticky cookie*: the
sticky branch of `ServeHTTP` never consults weights (`C02_zero_is_error_counterexample`; recorded as
known finding `sticky_zero_weight`).  Proved: the clause for every request that is not pinned.
-/
/-- **C02 (all-zero pool ⇒ error response), partial**: when every configured weight is 0, a request
    that is not pinned to a member by a sticky cookie gets the error response, the handler is not
    called and nothing changes; `NextServer()` fails. -/
theorem C02_zero_is_error_partial (v st : Bool) (bo : Nat) (nr : Bool) (hist : List Op)
    (hne : ∃ k, (specOf v hist k).isSome) (hz : ∀ k w, specOf v hist k = some w → w = 0)
    (cookie : Option Key) (mt : Option Mut)
    (hnp : st = true → ∀ k, cookie = some k → specOf v hist k = none) :
    (reach v st bo nr hist).step (.serve cookie mt) = (reach v st bo nr hist, .failed .errAllZero) ∧
    ((reach v st bo nr hist).step .next).2 = .next .errAllZero none := by
  obtain ⟨hi, hr, _, hst⟩ := reach_spec v st bo nr hist
  have hall := Sys.all_zero_of_spec hi hr hz
  have hmem : ∀ k, k ∈ (reach v st bo nr hist).bal.view.keys ↔ (specOf v hist k).isSome := by
    intro k; rw [← Sys.configured_mem hi, hr k]
  generalize reach v st bo nr hist = s at *
  have hwne : s.bal.ws ≠ [] := by
    obtain ⟨k, hk⟩ := hne
    have := (hmem k).mpr hk
    intro he
    have hl : s.bal.view.keys.length = 0 := by rw [← hi.bal.view.len]; simp [he]
    rw [List.length_eq_zero_iff.mp hl] at this; cases this
  have hnext : next s.bal.ws s.bal.it = (.errAllZero, s.bal.it) := C01.C01_all_zero_error _ hwne hall _
  have hstuck : s.bal.stuckRef s.sticky cookie = none := by
    unfold Bal.stuckRef
    split
    · rename_i hs
      split
      · rename_i k
        rw [Bal.findRef_none, hmem, hnp (hst ▸ hs) k rfl]; simp
      · rfl
    · rfl
  obtain ⟨e1, e2⟩ := Bal.route_unstuck_err hstuck (e := .errAllZero) (by rw [hnext]) (by simp)
  constructor
  · unfold Sys.step
    simp only
    rw [e1]
    simp only
    rw [e2, hnext]
    rfl
  · rw [(Sys.step_next_out hi).1, hnext]; rfl

/-- the witness of the known finding: sticky balancer, one server re-weighted to 0, a request whose
    cookie names it is forwarded (while an unpinned request gets the error) -/
theorem C02_zero_is_error_counterexample :
    let a : URL := ⟨"http", "a", "/", "", ""⟩
    let hist := [Op.upsert a none, Op.upsert a (some 0)]
    specOf false hist a.key = some 0 ∧
    ((reach false true 0 false hist).step (.serve none none)).2 = .failed .errAllZero ∧
    ((reach false true 0 false hist).step (.serve (some a.key) none)).2 = .forwarded a true := by
  decide

/-- **C02 (the request never carries one of the pool's own URL objects)**: on the `NextServer` path
    and on the sticky path alike, for both front ends. -/
theorem C02_handout_fresh (v st : Bool) (bo : Nat) (nr : Bool) (hist : List Op) (cookie : Option Key)
    (mt : Option Mut) (y : URL) (f : Bool)
    (h : ((reach v st bo nr hist).step (.serve cookie mt)).2 = .forwarded y f) : f = true := by
  obtain ⟨hi, _, _, _⟩ := reach_spec v st bo nr hist
  exact (Sys.routed_member hi (.serve cookie mt) (x := y) (by rw [h]; rfl)).2 y f h

/-- every function a handler could apply to the URL object it was handed is one of the modelled
    rewrites: `Mut.set` overwrites the object with an arbitrary value -/
theorem C02_any_rewrite_is_modelled (f : URL → URL) (u : URL) : ∃ m : Mut, m.apply u = f u :=
  ⟨.set (f u), rfl⟩

/-- **C02 (nothing a downstream handler does to its request alters the pool)**: whatever the handler
    writes to the object it was handed — `mt` ranges over single-field rewrites and over overwriting
    the object with *any* value (`Mut.set v`, i.e. any function of the object,
    `C02_any_rewrite_is_modelled`); the proof uses only that the object is not one of the pool's —
    `Servers()` returns the same URLs (userinfo and query included) as before the request, and
    membership keeps following the administration calls only. -/
theorem C02_downstream_mutation_noop (v st : Bool) (bo : Nat) (nr : Bool) (hist : List Op) (cookie : Option Key)
    (mt : Option Mut) :
    ((reach v st bo nr hist).step (.serve cookie mt)).1.servers = (reach v st bo nr hist).servers ∧
    ∀ k, (k ∈ ((reach v st bo nr hist).step (.serve cookie mt)).1.bal.view.keys ↔ (specOf v hist k).isSome) := by
  obtain ⟨hi, hr, _, _⟩ := reach_spec v st bo nr hist
  obtain ⟨a, b, _⟩ := Sys.step_spec hi hr (.serve cookie mt)
  have hkeys : ∀ k, (k ∈ ((reach v st bo nr hist).step (.serve cookie mt)).1.bal.view.keys ↔ (specOf v hist k).isSome) := by
    intro k; rw [← Sys.configured_mem a, b k]; rfl
  refine ⟨?_, hkeys⟩
  generalize reach v st bo nr hist = s at *
  obtain ⟨rw_, ru, rr, rws, _⟩ := Bal.route_wf hi.bal s.sticky cookie
  unfold Sys.step
  simp only
  cases hrt : (s.bal.route s.sticky cookie).1 with
  | err e => exact ru
  | fwd ref st' =>
    simp only
    obtain ⟨_, f2, _, _⟩ := Bal.route_fwd hi.bal hrt
    obtain ⟨m1, m2, _, m4, _, _⟩ := Bal.mutate_wf rw_ (r := ref) (by rw [rr]; exact f2) mt
    obtain ⟨a', _⟩ := Sys.withBal_spec hi hr m1 (m2.trans ru) (m4.trans rws)
    by_cases hv : s.viaRb = true
    · rw [if_pos hv]
      obtain ⟨_, _, j3, _⟩ := Reb.adjust_spec (a'.reb hv) s.now
      exact j3.trans (m2.trans ru)
    · rw [if_neg hv]
      exact m2.trans ru

/-! ### non-vacuity: concrete histories exercise the hypotheses -/

private def a : URL := ⟨"http", "h1", "/", "", ""⟩
private def a' : URL := ⟨"http", "h1", "/", "bob", "x=1"⟩   -- same key as `a`, different URL string
private def b : URL := ⟨"https", "h1", "/", "", ""⟩

-- repeated add keeps the first stored URL; removing leaves the other; through the rebalancer as well
example : (reach true true 0 true [.upsert a (some 2), .upsert a' none, .upsert b none, .remove a']).servers = [b] := by decide
example : specOf true [.upsert a (some 2), .upsert a' none, .upsert b none, .remove a'] b.key = some 1 := by decide
-- the hypotheses of `C02_added_within_rotation`, `C02_remove_unknown_noop`, `C02_zero_is_error_partial`
example : ((reach false false 0 false [.upsert a (some 2)]).step (.upsert b (some (Int.ofNat 3)))).1.bal.weight b.key = some 3 := by decide
example : specOf false [.upsert a (some 2)] b.key = none := by decide
example : (∃ k, (specOf false [.upsert a none, .upsert a (some 0)] k).isSome) ∧
    specOf false [.upsert a none, .upsert a (some 0)] a.key = some 0 := ⟨⟨a.key, by decide⟩, by decide⟩
-- a continuation that never adds the removed key again (`C02_removed_never_selected`)
example : ∀ op ∈ [Op.next, Op.serve (some a.key) (some .host), Op.upsert b none, Op.remove a], ¬ op.upsertsKey a.key := by
  intro op h
  simp only [List.mem_cons, List.not_mem_nil, or_false] at h
  rcases h with rfl | rfl | rfl | rfl <;> simp [Op.upsertsKey, a, b, URL.key]
-- a failed add: the hypothesis of `C02_failed_add_noop`, and what the model answers
example : specOf true [.upsert a (some 2)] b.key = none := by decide
example : ((reach true false 0 true [.upsert a (some 2)]).step (.upsertFailing b none)).2 = .errMeter := by decide
-- a handler overwriting every field of its URL object leaves the stored URL as it was
example : ((reach true true 0 false [.upsert a' none]).step
    (.serve (some a.key) (some (.set ⟨"evil", "evil", "/evil", "evil", "evil=1"⟩)))).1.servers = [a'] := by decide
-- a sticky request with a URL-rewriting handler is forwarded on a fresh object
example : ((reach true true 0 false [.upsert a' none]).step (.serve (some a.key) (some .host))).2 = .forwarded a' true := by decide

end C02
