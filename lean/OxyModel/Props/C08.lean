import OxyModel.Proofs.Forward.Rewrite
import OxyModel.Proofs.Forward.Target
/-!
# C08 — the forwarder rewrites the outgoing request as a correct reverse proxy

Objects: `Fwd.serve c r : Option Wire` is the request `forward.New(c.passHostHeader)` puts on the wire for the
incoming request `r` (`none`: the stdlib refuses a non-printable upgrade type and calls the error handler);
`Fwd.relay b` is the response the client gets for the backend response `b`. `r.formParsed` says whether
somebody in front of the forwarder parsed the request's form (then the stdlib cleans the outgoing query). Both are the definitions the
correspondence driver runs. `c.trust = true` and `c.hostname ≠ ""` is what `forward.New` builds
(`NewHeaderRewriter`).

Not verified here (assumed, exercised by the correspondence run): that `http.Transport` writes
`URL.RequestURI()`, `Host` and the header map the way `Fwd.Wire`/`wireHeader` say, Go's server-side parsing
of the incoming request, and `transportResp` (the Transport's handling of `Connection: close`).
-/
namespace C08
open Fwd FwdURL

theorem serve_some {c : Cfg} {r : Req} {w : Wire} (hw : serve c r = some w) :
    w.target = requestURI (formStep r.formParsed (director c r).url) ∧ w.proto = outProto ∧
    w.host = (if (director c r).host ≠ "" then (director c r).host else (director c r).url.host) ∧
    w.backend = ((director c r).url.scheme, (director c r).url.host) ∧
    w.header = wireHeader (outHeader c r) r.method r.bodyLen := by
  simp only [serve] at hw
  split at hw
  · exact absurd hw (by simp)
  · cases hw; exact ⟨rfl, rfl, rfl, rfl, rfl⟩

theorem director_url (c : Cfg) (r : Req) : (director c r).url = (modifyRequest r).url := by
  simp only [director]; split <;> rfl

/-! ## request target -/

/-- **C08, request target.** For every valid origin-form target — `path` over RFC 3986 `pchar`s, `/` and
well-formed `%XY` triples (so escaped slashes and spaces, multi-byte escapes, `;`, `+`, `//`, dot segments),
optionally `?query` (possibly empty) — the request line sent to the backend carries exactly the bytes the
client sent: nothing decoded, nothing re-encoded, nothing normalised. (`/a?` relies on commit ef1f4f2.)
`hform`: nobody in front of the forwarder has parsed the request's form (`req.Form == nil`) — true for every oxy
middleware; if a caller's own handler calls `ParseForm`/`FormValue` first, `httputil.ReverseProxy` re-encodes a
query that contains `;` or a malformed escape, see `C08_form_parsed_counterexample`. -/
theorem C08_target_roundtrip (c : Cfg) (r : Req) (p : Bytes) (q : Option Bytes)
    (hp : validPath p = true) (hq : ∀ q', q = some q' → validQuery q' = true)
    (hr : r.requestURI = target p q) (hform : r.formParsed = false) (w : Wire) (hw : serve c r = some w) :
    w.target = target p q := by
  obtain ⟨ht, -⟩ := serve_some hw
  simp only [hform, formStep, Bool.false_eq_true, if_false] at ht
  obtain ⟨u, hu, hreq⟩ := requestURI_parse r.url p q hp hq
  have hne : r.requestURI ≠ [] := by
    rw [hr]; simp only [target]
    cases p with
    | nil => simp [validPath] at hp
    | cons a b => simp
  have hpu : parseRequestURI r.requestURI = some u := by rw [hr]; exact hu
  have hm : (modifyRequest r).url =
      { r.url with path := u.path, rawPath := u.rawPath, rawQuery := u.rawQuery, forceQuery := u.forceQuery } := by
    simp only [modifyRequest, hne, ne_eq, not_false_eq_true, if_true, hpu, Option.getD_some]
  rw [ht, director_url, hm]
  exact hreq

/-- **C08, request target in absolute-form** (`GET http://other/p?q HTTP/1.1`, RFC 7230 §5.3.2). For every valid
scheme, every simple authority (reg-name with optional port), every valid path or the empty path, and every
query: the request line sent to the backend is the target's path (`/` if it is empty) and query, byte for
byte — the target's scheme and authority select nothing (the backend stays the caller's: `C08_host`), and
the Go server uses the authority as `req.Host` (`serverHost`). -/
theorem C08_target_roundtrip_absolute (c : Cfg) (r : Req) (s a p : Bytes) (q : Option Bytes)
    (hs : validScheme s = true) (ha : simpleAuthority a = true) (hp : p = [] ∨ validPath p = true)
    (hq : ∀ q', q = some q' → validQuery q' = true)
    (hr : r.requestURI = absTarget s a p q) (hform : r.formParsed = false) (w : Wire) (hw : serve c r = some w) :
    w.target = target (if p = [] then ['/'] else p) q ∧ w.backend = (r.url.scheme, r.url.host) ∧
    ∃ u, parseRequestURI r.requestURI = some u ∧
      ∀ hostHeader, serverHost u hostHeader = if a ≠ [] then String.ofList a else hostHeader := by
  obtain ⟨ht, -, -, hb, -⟩ := serve_some hw
  simp only [hform, formStep, Bool.false_eq_true, if_false] at ht
  obtain ⟨u, hu, hh, hreq⟩ := requestURI_parse_abs r.url s a p q hs ha hp hq
  have hne : r.requestURI ≠ [] := by
    rw [hr]
    cases s with
    | nil => simp [validScheme] at hs
    | cons x xs => simp [absTarget]
  have hpu : parseRequestURI r.requestURI = some u := by rw [hr]; exact hu
  have hm : (modifyRequest r).url =
      { r.url with path := u.path, rawPath := u.rawPath, rawQuery := u.rawQuery, forceQuery := u.forceQuery } := by
    simp only [modifyRequest, hne, ne_eq, not_false_eq_true, if_true, hpu, Option.getD_some]
  refine ⟨by rw [ht, director_url, hm]; exact hreq, ?_, u, hpu, ?_⟩
  · rw [hb, director_url, hm]
  · intro hostHeader
    simp only [serverHost, hh]
    by_cases hae : a = []
    · subst hae; simp
    · have : String.ofList a ≠ "" := by
        intro e
        have := congrArg String.toList e
        simp only [String.toList_ofList] at this
        exact hae (by simpa using this)
      simp [hae, this]

/-- the hypothesis `formParsed = false` of the two round-trip theorems is needed: with the form parsed upstream
the stdlib's `cleanQueryParams` drops `b=2;c=3` and `a=%zz` from a query every character of which is valid -/
theorem C08_form_parsed_counterexample :
    ∃ (r : Req), r.formParsed = true ∧
      validPath "/p".toList = true ∧ validQuery "b=2;c=3&a=%zz&z=1".toList = true ∧
      r.requestURI = target "/p".toList (some "b=2;c=3&a=%zz&z=1".toList) ∧
      (serve { passHostHeader := false } r).map (·.target) = some "/p?z=1".toList ∧ "/p?z=1".toList ≠ r.requestURI :=
  ⟨{ requestURI := "/p?b=2;c=3&a=%zz&z=1".toList, url := { scheme := "http", host := "b" }, host := "h",
     remoteAddr := "1.2.3.4:5", tls := false, header := [], formParsed := true },
   rfl, by decide +kernel, by decide +kernel, by decide +kernel, by decide +kernel, by decide +kernel⟩

/-! ## protocol, backend, Host -/

/-- **C08, HTTP/1.1 to the caller's backend, Host rule.** -/
theorem C08_host (c : Cfg) (r : Req) (w : Wire) (hw : serve c r = some w) :
    w.proto = "HTTP/1.1" ∧ w.backend = (r.url.scheme, r.url.host) ∧
    (c.passHostHeader = false → w.host = r.url.host) ∧
    (c.passHostHeader = true → w.host = if r.host ≠ "" then r.host else r.url.host) := by
  obtain ⟨-, hp, hh, hb, -⟩ := serve_some hw
  have hurl : (director c r).url.host = r.url.host ∧ (director c r).url.scheme = r.url.scheme := by
    rw [director_url]; simp [modifyRequest]
  refine ⟨hp, by rw [hb, hurl.1, hurl.2], ?_, ?_⟩
  · intro hpass
    have : (director c r).host = r.url.host := by simp [director, hpass, modifyRequest]
    rw [hh, this, hurl.1]; simp
  · intro hpass
    have : (director c r).host = r.host := by simp [director, hpass, modifyRequest]
    rw [hh, this, hurl.1]

/-! ## hop-by-hop headers, request direction -/

theorem named_director (c : Cfg) (r : Req) :
    named (director c r).header = (named r.header).filter (fun k => !XHeaders.contains k) := by
  have hv : vals (rewrite c (modifyRequest r)) Connection = vals r.header Connection := by
    rw [vals_eq_of_lookup (lookup_rewrite_other c _ Connection (by decide)), modifyRequest_header]
  simp only [named, director_header, tokens_protect, hv, List.filter_map]
  rfl

/-- **C08, hop-by-hop hygiene towards the backend.** `k` is a hop-by-hop name: on the stdlib's list or named
by the client's Connection header (canonicalised), and not a forwarding header (those are protected, see
`C08_xfwd_survive`). Then no header `k` reaches the backend, except for what the proxy emits *itself* for its
own hop: `Te: trailers` when the client announced trailer support, `Connection: Upgrade` / `Upgrade: <type>`
on a protocol-upgrade request, and the `Content-Length` framing of the body it sends. -/
theorem C08_hop_by_hop_removed (c : Cfg) (r : Req) (w : Wire) (hw : serve c r = some w) (k : String)
    (hk : k ∈ hopHeaders ∨ k ∈ named r.header) (hx : k ∉ XHeaders) :
    (k ∉ ["Te", "Connection", "Upgrade", "Content-Length", "User-Agent"] → has w.header k = false) ∧
    (vals w.header "Te" = if containsToken (vals r.header "Te") "trailers" then ["trailers"] else []) ∧
    (vals w.header "Connection" = if upgradeType (director c r).header ≠ "" then ["Upgrade"] else []) ∧
    (vals w.header "Upgrade" =
      if upgradeType (director c r).header ≠ "" then [upgradeType (director c r).header] else []) := by
  obtain ⟨-, -, -, -, hh⟩ := serve_some hw
  have gone : ∀ k', (k' ∈ hopHeaders ∨ k' ∈ named r.header) → k' ∉ XHeaders →
      (removeHopByHop (director c r).header).lookup k' = none := by
    intro k' hk' hx'
    rw [lookup_removeHopByHop, named_director]
    have : k' ∈ hopHeaders ∨ k' ∈ (named r.header).filter (fun k => !XHeaders.contains k) := by
      rcases hk' with h | h
      · exact Or.inl h
      · exact Or.inr (List.mem_filter.mpr ⟨h, by simpa using hx'⟩)
    rw [if_pos this]
  have hte := gone "Te" (Or.inl (by decide)) (by decide)
  have hco := gone "Connection" (Or.inl (by decide)) (by decide)
  have hup := gone "Upgrade" (Or.inl (by decide)) (by decide)
  refine ⟨?_, ?_, ?_, ?_⟩
  · intro hn
    simp only [List.mem_cons, List.not_mem_nil, or_false, not_or] at hn
    obtain ⟨n1, n2, n3, n4, n5⟩ := hn
    by_cases hm : k ∈ transportManaged
    · -- Host / Transfer-Encoding / Trailer: never copied from the map
      rw [hh]
      simp only [wireHeader]
      repeat' split
      all_goals simp [has, lookup_set, lookup_delAll, hm, n4, n5]
    · have hown : k ∉ stdlibOwn := by
        simp only [transportManaged, List.mem_cons, List.not_mem_nil, or_false, not_or] at hm
        have : k ≠ XForwardedFor := fun e => hx (by simp [XHeaders, e])
        simp only [XForwardedFor] at this
        simp [stdlibOwn, n1, n2, n3, n4, n5, this, hm]
      rw [hh]; simp only [has]; rw [lookup_wire c r k hown, gone k hk hx]; rfl
  · rw [hh]
    apply Eq.trans (vals_eq_of_lookup (lookup_wireHeader _ _ _ "Te" (by decide)))
    simp only [outHeader]
    rw [vals_eq_of_lookup (lookup_stUserAgent _ "Te" (by decide)),
      vals_eq_of_lookup (lookup_appendXFF _ _ "Te" (by decide)),
      vals_eq_of_lookup (lookup_stUpgrade _ _ "Te" (by decide) (by decide))]
    simp only [stTe]
    split <;> simp [vals, lookup_set, hte]
  · rw [hh]
    apply Eq.trans (vals_eq_of_lookup (lookup_wireHeader _ _ _ "Connection" (by decide)))
    simp only [outHeader]
    rw [vals_eq_of_lookup (lookup_stUserAgent _ "Connection" (by decide)),
      vals_eq_of_lookup (lookup_appendXFF _ _ "Connection" (by decide))]
    simp only [stUpgrade]
    split
    · simp [vals, lookup_set, Connection]
    · rw [vals_eq_of_lookup (lookup_stTe _ _ "Connection" (by decide))]; simp [vals, hco]
  · rw [hh]
    apply Eq.trans (vals_eq_of_lookup (lookup_wireHeader _ _ _ "Upgrade" (by decide)))
    simp only [outHeader]
    rw [vals_eq_of_lookup (lookup_stUserAgent _ "Upgrade" (by decide)),
      vals_eq_of_lookup (lookup_appendXFF _ _ "Upgrade" (by decide))]
    simp only [stUpgrade]
    split
    · simp [vals, lookup_set]
    · rw [vals_eq_of_lookup (lookup_stTe _ _ "Upgrade" (by decide))]; simp [vals, hup]

/-- **C08, end-to-end headers reach the backend unchanged** (all values, in order). `stdlibOwn` are the names
the stdlib writes itself (framing, Host, User-Agent, X-Forwarded-For, and the three above). -/
theorem C08_end_to_end_preserved (c : Cfg) (r : Req) (w : Wire) (hw : serve c r = some w) (k : String)
    (h1 : k ∉ hopHeaders) (h2 : k ∉ named r.header) (h3 : k ∉ XHeaders) (h4 : k ∉ stdlibOwn) :
    w.header.lookup k = r.header.lookup k := by
  obtain ⟨-, -, -, -, hh⟩ := serve_some hw
  have hc : k ≠ Connection := fun e => h1 (by simp [hopHeaders, e, Connection])
  have hn : k ∉ named (director c r).header := by
    rw [named_director]; exact fun h => h2 (List.mem_filter.mp h).1
  rw [hh, lookup_wire c r k h4, lookup_removeHopByHop]
  simp only [h1, hn, or_self, if_false]
  rw [director_header, lookup_protect_other _ _ hc, lookup_rewrite_other _ _ _ h3, modifyRequest_header]

/-- **C08, User-Agent** (the one end-to-end header `http.Transport` writes itself): the client's value (the first
one) reaches the backend unless it is empty or the client names User-Agent in Connection; the proxy never
invents one. -/
theorem C08_user_agent (c : Cfg) (r : Req) (w : Wire) (hw : serve c r = some w) :
    vals w.header "User-Agent" =
      if get r.header "User-Agent" ≠ "" ∧ "User-Agent" ∉ named r.header then [get r.header "User-Agent"] else [] := by
  obtain ⟨-, -, -, -, hh⟩ := serve_some hw
  have hget : get (outHeader c r) "User-Agent" =
      if "User-Agent" ∈ named r.header then "" else get r.header "User-Agent" := by
    simp only [outHeader]
    have e1 : ∀ X : Hdr, get (stUserAgent X) "User-Agent" = get X "User-Agent" := by
      intro X
      simp only [stUserAgent]
      split
      · next h =>
        have : X.lookup "User-Agent" = none := by
          simp only [has, Bool.not_eq_true', Option.isSome_eq_false_iff, Option.isNone_iff_eq_none] at h; exact h
        rw [get_set]; simp [Fwd.get, vals, this]
      · rfl
    rw [e1, get_eq_of_lookup (lookup_appendXFF _ _ "User-Agent" (by decide)),
      get_eq_of_lookup (lookup_stUpgrade _ _ "User-Agent" (by decide) (by decide)),
      get_eq_of_lookup (lookup_stTe _ _ "User-Agent" (by decide))]
    have hl : (removeHopByHop (director c r).header).lookup "User-Agent" =
        if "User-Agent" ∈ named r.header then none else r.header.lookup "User-Agent" := by
      rw [lookup_removeHopByHop, named_director]
      have h1 : "User-Agent" ∉ hopHeaders := by decide
      have h2 : "User-Agent" ∈ (named r.header).filter (fun k => !XHeaders.contains k) ↔ "User-Agent" ∈ named r.header := by
        simp only [List.mem_filter]
        exact ⟨fun h => h.1, fun h => ⟨h, by decide⟩⟩
      by_cases hn : "User-Agent" ∈ named r.header
      · rw [if_pos (Or.inr (h2.mpr hn)), if_pos hn]
      · rw [if_neg (by rw [h2]; simp [h1, hn]), if_neg hn]
        rw [director_header, lookup_protect_other _ _ (by decide), lookup_rewrite_other _ _ _ (by decide),
          modifyRequest_header]
    simp only [Fwd.get, vals, hl]
    split <;> simp
  rw [hh]
  simp only [wireHeader, hget]
  by_cases hn : "User-Agent" ∈ named r.header
  · simp only [hn, if_true, ne_eq, not_true_eq_false, if_false, and_false]
    split <;> simp [vals_set, vals_delAll, transportManaged]
  · by_cases hg : get r.header "User-Agent" = ""
    · simp only [hn, if_false, hg, ne_eq, not_true_eq_false, false_and]
      split <;> simp [vals_set, vals_delAll, transportManaged]
    · simp only [hn, if_false, hg, ne_eq, not_false_eq_true, if_true, and_self]
      split <;> simp [vals_set, vals_delAll, transportManaged]

/-! ## hop-by-hop headers, response direction -/

theorem named_nil_of_no_connection (h : Hdr) (hc : vals h Connection = []) : named h = [] := by
  simp [named, hc, tokens]

/-- **C08, hop-by-hop hygiene towards the client** — *partial*. Full statement: for every backend response no
header on the stdlib's hop-by-hop list or named by the backend's Connection header reaches the client.
Proved under `hclose`: the backend's Connection header does not contain the token `close`. Without it the
statement is false for the code as it is (`C08_resp_close_counterexample`): `http.Transport` deletes a
Connection header that says `close` before `ReverseProxy` can read the names in it. -/
theorem C08_resp_hop_by_hop_removed_partial (b : Resp) (k : String)
    (hk : k ∈ hopHeaders ∨ k ∈ named b.header)
    (hclose : containsToken (vals b.header Connection) "close" = false) :
    has (relay b).header k = false := by
  simp only [relay, transportResp, hclose, Bool.false_eq_true, if_false, has, lookup_removeHopByHop]
  simp [hk]

/-- the standard hop-by-hop names never reach the client, whatever the Connection header says -/
theorem C08_resp_standard_hop_removed (b : Resp) (k : String) (hk : k ∈ hopHeaders) :
    has (relay b).header k = false := by
  simp only [relay, has, lookup_removeHopByHop]; simp [hk]

theorem C08_resp_close_counterexample :
    ∃ (b : Resp) (k : String), k ∈ named b.header ∧ k ∉ hopHeaders ∧ has (relay b).header k = true :=
  ⟨{ status := 200, header := [("Connection", ["close, X-Hop"]), ("X-Hop", ["1"])], body := "" }, "X-Hop",
    by decide +kernel, by decide, by decide +kernel⟩

/-- **C08/C16, end-to-end response headers reach the client unchanged**, status and body too. -/
theorem C08_resp_end_to_end_preserved (b : Resp) (k : String) (h1 : k ∉ hopHeaders) (h2 : k ∉ named b.header) :
    (relay b).header.lookup k = b.header.lookup k ∧ (relay b).status = b.status ∧ (relay b).body = b.body := by
  refine ⟨?_, by simp [relay], by simp [relay]⟩
  have hc : k ≠ Connection := fun e => h1 (by simp [hopHeaders, e, Connection])
  simp only [relay, transportResp, lookup_removeHopByHop]
  split
  · have : named (del b.header Connection) = [] := named_nil_of_no_connection _ (by simp [vals_del])
    simp [h1, this, lookup_del, hc]
  · simp [h1, h2]

/-! ## forwarding headers -/

/-- **C08, the forwarding headers set by the rewriter reach the backend whatever the client's Connection
header lists** (the defect repaired by commit cc5d550: `Connection: X-Real-Ip, X-Forwarded-Proto, …`). -/
theorem C08_xfwd_survive (c : Cfg) (r : Req) (w : Wire) (hw : serve c r = some w) (k : String)
    (hk : k ∈ XHeaders) (hf : k ≠ XForwardedFor) :
    w.header.lookup k = (rewrite c (modifyRequest r)).lookup k := by
  obtain ⟨-, -, -, -, hh⟩ := serve_some hw
  have hown : k ∉ stdlibOwn ∧ k ∉ hopHeaders ∧ k ≠ Connection := by
    simp only [XHeaders, List.mem_cons, List.not_mem_nil, or_false] at hk
    rcases hk with rfl | rfl | rfl | rfl | rfl | rfl
    · decide
    · exact absurd rfl hf
    · decide
    · decide
    · decide
    · decide
  have hn : k ∉ named (director c r).header := by
    rw [named_director]
    intro h
    have := (List.mem_filter.mp h).2
    simp [hk] at this
  rw [hh, lookup_wire c r k hown.1, lookup_removeHopByHop]
  simp only [hown.2.1, hn, or_self, if_false]
  rw [director_header, lookup_protect_other _ _ hown.2.2]

/-- **C08, X-Forwarded-Proto / -Host / -Port / -Server and X-Real-Ip describe the incoming connection unless
an upstream proxy supplied them** ("supplied" as the code reads it: `Header.Get` is non-empty, i.e. the first
value is not the empty string; a supplied header is passed on with all its values). X-Forwarded-Server is
always this proxy's host name (`properties.jsonl`, C08 mechanism 2: "server name always set").
`splitHostPort r.remoteAddr = none` (no usable peer address) leaves X-Real-Ip as it came. -/
theorem C08_xfwd_filled_iff_absent (c : Cfg) (r : Req) (w : Wire) (hw : serve c r = some w)
    (ht : c.trust = true) (hn : c.hostname ≠ "") :
    (vals w.header XForwardedProto =
      if get r.header XForwardedProto = "" then [if r.tls then "https" else "http"]
      else vals r.header XForwardedProto) ∧
    (vals w.header XRealIP =
      match splitHostPort r.remoteAddr with
      | some (ip, _) => if get r.header XRealIP = "" then [ipv6fix ip] else vals r.header XRealIP
      | none => vals r.header XRealIP) ∧
    (vals w.header XForwardedHost =
      if get r.header XForwardedHost = "" ∧ r.host ≠ "" then [r.host] else vals r.header XForwardedHost) ∧
    (vals w.header XForwardedPort =
      if get r.header XForwardedPort = "" then [portFor r.host (effProto r) r.tls]
      else vals r.header XForwardedPort) ∧
    (vals w.header XForwardedServer = [c.hostname]) := by
  have s := fun k hk hf => vals_eq_of_lookup (C08_xfwd_survive c r w hw k hk hf)
  have e1 := vals_rewrite_proto c (modifyRequest r) ht
  have e2 := vals_rewrite_realip c (modifyRequest r) ht
  have e3 := vals_rewrite_host c (modifyRequest r) ht
  have e4 := vals_rewrite_port c (modifyRequest r) ht
  have e5 := vals_rewrite_server c (modifyRequest r) hn
  simp only [modifyRequest_header, modifyRequest_host, modifyRequest_remoteAddr, modifyRequest_tls, effProto] at e1 e2 e3 e4 e5
  refine ⟨?_, ?_, ?_, ?_, ?_⟩
  · rw [s _ (by decide) (by decide)]; exact e1
  · rw [s _ (by decide) (by decide)]; exact e2
  · rw [s _ (by decide) (by decide)]; exact e3
  · rw [s _ (by decide) (by decide)]; simpa only [effProto] using e4
  · rw [s _ (by decide) (by decide)]; exact e5

/-- **C08, the peer address is appended to X-Forwarded-For**: the header sent is the prior values (all of them,
in order) joined with ", " followed by the peer's address; a client cannot strip it through Connection. -/
theorem C08_xff_appended (c : Cfg) (r : Req) (w : Wire) (hw : serve c r = some w) (ht : c.trust = true)
    (ip port : String) (hpeer : splitHostPort r.remoteAddr = some (ip, port)) :
    vals w.header XForwardedFor =
      [if vals r.header XForwardedFor ≠ [] then String.intercalate ", " (vals r.header XForwardedFor) ++ ", " ++ ip
       else ip] := by
  obtain ⟨-, -, -, -, hh⟩ := serve_some hw
  have hn : XForwardedFor ∉ named (director c r).header := by
    rw [named_director]
    intro h
    have := (List.mem_filter.mp h).2
    simp [XHeaders] at this
  have prior : vals (stUpgrade (upgradeType (director c r).header) (stTe r.header (removeHopByHop (director c r).header)))
      XForwardedFor = vals r.header XForwardedFor := by
    rw [vals_eq_of_lookup (lookup_stUpgrade _ _ XForwardedFor (by decide) (by decide)),
      vals_eq_of_lookup (lookup_stTe _ _ XForwardedFor (by decide))]
    have : (removeHopByHop (director c r).header).lookup XForwardedFor = (director c r).header.lookup XForwardedFor := by
      rw [lookup_removeHopByHop]
      have : XForwardedFor ∉ hopHeaders := by decide
      simp [this, hn]
    rw [vals_eq_of_lookup this, director_header,
      vals_eq_of_lookup (lookup_protect_other _ XForwardedFor (by decide)), vals_rewrite_xff _ _ ht, modifyRequest_header]
  rw [hh]
  apply Eq.trans (vals_eq_of_lookup (lookup_wireHeader _ _ _ XForwardedFor (by decide)))
  simp only [outHeader]
  rw [vals_eq_of_lookup (lookup_stUserAgent _ XForwardedFor (by decide))]
  simp only [appendXFF, hpeer, vals_set, if_true, prior]

/-! ## non-vacuity: concrete requests exercising every clause -/

/-- the witness of the defect repaired by ef1f4f2: the empty query of `/a?` is kept -/
example : (serve { passHostHeader := false }
      { requestURI := ['/', 'a', '?'], url := { scheme := "http", host := "b" }, host := "h",
        remoteAddr := "1.2.3.4:5", tls := false, header := [] }).map (·.target) = some ['/', 'a', '?'] := by
  decide +kernel

/-- `GET /a%2Fb%20c//d/../e;x=1+2?q=%zz HTTP/1.1`, Host `example.com:8080`, peer `[fe80::1%eth0]:5555`, TLS,
client headers `Connection: X-Real-Ip, x-foo, close`, `X-Foo`, `X-Test` (two values), `Keep-Alive`,
`X-Forwarded-For: 1.1.1.1` -/
def sampleReq : Req where
  requestURI := "/a%2Fb%20c//d/../e;x=1+2?q=%zz".toList
  url := { scheme := "http", host := "10.0.0.7:9000" }
  host := "example.com:8080"
  remoteAddr := "[fe80::1%eth0]:5555"
  tls := true
  header := [("Connection", ["X-Real-Ip, x-foo, close"]), ("X-Foo", ["1"]), ("X-Test", ["hello", "again"]),
    ("Keep-Alive", ["3"]), ("X-Forwarded-For", ["1.1.1.1"])]

def sampleCfg : Cfg := { passHostHeader := false }

example : validPath "/a%2Fb%20c//d/../e;x=1+2".toList = true ∧ validQuery "q=%zz".toList = true := by
  decide +kernel
example : sampleReq.requestURI = target "/a%2Fb%20c//d/../e;x=1+2".toList (some "q=%zz".toList) := by
  decide +kernel
example : (serve sampleCfg sampleReq).map (fun w =>
      (w.target == sampleReq.requestURI, w.host, has w.header "X-Foo", has w.header "Keep-Alive",
       has w.header "Connection"))
    = some (true, "10.0.0.7:9000", false, false, false) := by
  decide +kernel
example : (serve sampleCfg sampleReq).map (fun w =>
      [vals w.header "X-Test", vals w.header XRealIP, vals w.header XForwardedProto,
       vals w.header XForwardedPort, vals w.header XForwardedHost, vals w.header XForwardedFor])
    = some [["hello", "again"], ["fe80::1"], ["https"], ["8080"], ["example.com:8080"], ["1.1.1.1, fe80::1%eth0"]] := by
  decide +kernel
/-- an absolute-form witness: `GET HTTP://Other.Example:8080/p%2Fq;x?a=1;b=2&c= HTTP/1.1` -/
example : validScheme "HTTP".toList = true ∧ simpleAuthority "Other.Example:8080".toList = true ∧
    validPath "/p%2Fq;x".toList = true ∧ validQuery "a=1;b=2&c=".toList = true := by decide +kernel
example : (serve sampleCfg { sampleReq with requestURI := "HTTP://Other.Example:8080/p%2Fq;x?a=1;b=2&c=".toList }).map
      (fun w => (w.target, w.backend)) = some ("/p%2Fq;x?a=1;b=2&c=".toList, ("http", "10.0.0.7:9000")) := by
  decide +kernel
example : (serve sampleCfg { sampleReq with requestURI := "http://other?".toList }).map (·.target) = some "/?".toList := by
  decide +kernel
example : "X-Foo" ∈ named sampleReq.header ∧ "X-Foo" ∉ XHeaders ∧ "X-Real-Ip" ∈ named sampleReq.header := by
  decide +kernel
example : splitHostPort sampleReq.remoteAddr = some ("fe80::1%eth0", "5555") := by decide +kernel
/-- hypotheses of the response theorems are satisfiable: a backend Connection header without `close` -/
example : containsToken (vals [("Connection", ["X-Hop, keep-alive"]), ("X-Hop", ["1"])] Connection) "close" = false ∧
    "X-Hop" ∈ named [("Connection", ["X-Hop, keep-alive"]), ("X-Hop", ["1"])] := by decide +kernel

end C08
