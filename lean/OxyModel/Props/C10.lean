import OxyModel.Proofs.Rebal.Range
import OxyModel.Proofs.Rebal.Split

/-!
# C10 — the rebalancer shifts share only away from outliers and never starves a server

Property theorems only.  Model: `RB.Sys` with `viaRb = true` (`Model/Rebalancer.lean`): a
`Rebalancer` with scripted meters over a `RoundRobin`.  A history is any list of `RB.Op` — add /
update / remove at arbitrary points, `rate` / `ready` (every sequence of ratings and readiness flags),
`adv` (every timing), requests (each runs `adjustWeights`).  "Configured weight" of a key is
`specOf true hist k` (C02), "effective weight" is the balancer's `ServerWeight` (`Bal.weight`); by C01 the
traffic share of server `i` is `ws[i] / Σ ws`, so shares are compared cross-multiplied.
-/
namespace C10
open RB PoolM RR

/-- the rebalanced system after a history, from a fresh instance -/
def reach (sticky : Bool) (backoff : Nat) (newReady : Bool) (hist : List Op) : Sys :=
  (Sys.init true sticky backoff newReady).applyOps hist

private theorem reach_spec (st : Bool) (bo : Nat) (nr : Bool) (hist : List Op) :
    (reach st bo nr hist).Inv ∧ (reach st bo nr hist).Refines (specOf true hist) ∧ (reach st bo nr hist).viaRb = true := by
  obtain ⟨a, b, c⟩ := Sys.applyOps_spec hist (Sys.init_inv true st bo nr) (Sys.init_refines true st bo nr)
  exact ⟨a, b, c.viaRb⟩

/-- **C10 (range)**: whatever the history, a server with positive configured weight `w` has an
    effective weight `e` with `1 ≤ e ≤ max 4096 w`. -/
theorem C10_range (st : Bool) (bo : Nat) (nr : Bool) (hist : List Op) (k : Key) (w : Nat)
    (hc : specOf true hist k = some w) (hw : 0 < w) :
    ∃ e, (reach st bo nr hist).bal.weight k = some e ∧ 1 ≤ e ∧ e ≤ max 4096 w := by
  obtain ⟨hi, hr, hv⟩ := reach_spec st bo nr hist
  have hc' : (reach st bo nr hist).reb.configured k = some w := by
    have := hr k; unfold Sys.configured at this; rw [if_pos hv] at this; rw [this, hc]
  obtain ⟨p, hp, _, ho, he⟩ := Sys.effective_of_configured hi hv hc'
  have hb := (hi.reb hv).bounded p hp
  have hpos := (hi.reb hv).pos p hp
  refine ⟨p.cur, he, hpos (by rw [ho]; exact hw), ?_⟩
  have := hb.1
  rw [ho] at this
  rw [max_comm]; exact this

/-- **C10 (the pool stays servable)**: if some configured weight is positive, `NextServer()` selects
    a server and every request is forwarded, after every history. -/
theorem C10_servable (st : Bool) (bo : Nat) (nr : Bool) (hist : List Op) (k : Key) (w : Nat)
    (hc : specOf true hist k = some w) (hw : 0 < w) (cookie : Option Key) (mt : Option Mut) :
    (∃ i y, ((reach st bo nr hist).step .next).2 = .next (.sel i) (some y)) ∧
    (∃ y f, ((reach st bo nr hist).step (.serve cookie mt)).2 = .forwarded y f) := by
  obtain ⟨e, he, h1, _⟩ := C10_range st bo nr hist k w hc hw
  obtain ⟨hi, _, _⟩ := reach_spec st bo nr hist
  have hp : ∃ w' ∈ (reach st bo nr hist).bal.ws, 0 < w' := by
    obtain ⟨i, hik, _, hwi⟩ := (Pool.weight_some hi.bal.view).mp he
    exact ⟨e, hwi ▸ List.getElem_mem _, h1⟩
  refine ⟨?_, Sys.serve_forwarded hi hp cookie mt⟩
  obtain ⟨i, hsel, _, _⟩ := Sys.next_sel hi hp
  rw [(Sys.step_next_out hi).1, hsel]
  exact ⟨i, _, rfl⟩

/-- **C10 (at most one change per back-off interval)**: an adjustment that changes anything arms
    the timer at `now + backoff` (first part); and from any reachable state, along any continuation
    without membership changes, the effective weights stay exactly as they are for as long as the
    clock has not passed the timer (second part) — so two changes are more than a back-off apart. -/
theorem C10_once_per_backoff (st : Bool) (bo : Nat) (nr : Bool) (hist tail : List Op)
    (hna : ∀ op ∈ tail, ¬ op.isAdmin) :
    (∀ r : Reb, ∀ now, r.adjust now ≠ r → (r.adjust now).timer = (now : Int) + r.backoff ∧ r.timer < (now : Int)) ∧
    ((((reach st bo nr hist).applyOps tail).now : Int) ≤ (reach st bo nr hist).reb.timer →
      ((reach st bo nr hist).applyOps tail).bal.ws = (reach st bo nr hist).bal.ws ∧
      ((reach st bo nr hist).applyOps tail).reb.timer = (reach st bo nr hist).reb.timer) := by
  constructor
  · intro r now hne
    unfold Reb.adjust at hne ⊢
    split
    · rename_i h; rw [if_pos h] at hne; exact absurd rfl hne
    · rename_i h1
      rw [if_neg h1] at hne
      split
      · rename_i h; rw [if_pos h] at hne; exact absurd rfl hne
      · rename_i h2
        rw [if_neg h2] at hne
        split
        · rename_i h; rw [if_pos h] at hne; exact absurd rfl hne
        · rename_i h3
          rw [if_neg h3] at hne
          simp only at hne ⊢
          split
          · refine ⟨rfl, ?_⟩
            unfold Reb.timerExpired at h3; simpa using h3
          · rename_i h; rw [if_neg h] at hne; exact absurd rfl hne
  · obtain ⟨hi, _, _⟩ := reach_spec st bo nr hist
    exact Sys.frozen_until_timer tail hi hna

/-- **C10 (share never up under a mixed marking)**: when a request's adjustment sees a mixed marking
    (some servers rated outliers, some good), the effective weight `e'ᵢ` of every server not rated
    good satisfies `e'ᵢ · Σe ≤ eᵢ · Σe'` — whatever the ratings (negative ones included), readiness,
    timer and history. -/
theorem C10_mixed_share_not_up (st : Bool) (bo : Nat) (nr : Bool) (hist : List Op) (cookie : Option Key)
    (mt : Option Mut) (i : Nat)
    (hm : (reach st bo nr hist).reb.marks.2 = true)
    (hbad : (reach st bo nr hist).reb.marks.1[i]? = some false) :
    ((reach st bo nr hist).step (.serve cookie mt)).1.bal.ws.getD i 0 * (reach st bo nr hist).bal.ws.sum
      ≤ (reach st bo nr hist).bal.ws.getD i 0 * ((reach st bo nr hist).step (.serve cookie mt)).1.bal.ws.sum := by
  obtain ⟨hi, hr, hv⟩ := reach_spec st bo nr hist
  obtain ⟨a, _, _⟩ := Sys.step_spec hi hr (.serve cookie mt)
  generalize reach st bo nr hist = s at *
  have hws : s.bal.ws = s.reb.servers.map (·.cur) := (hi.reb hv).ws.symm
  obtain ⟨rw_, ru, rr, rws, _⟩ := Bal.route_wf hi.bal s.sticky cookie
  have hstep : (s.step (.serve cookie mt)).1.bal.ws = s.bal.ws ∨
      (s.step (.serve cookie mt)).1.bal.ws = ((s.reb.adjust s.now).servers.map (·.cur)) := by
    have hws' := (a.reb (by rw [← hv]; exact (Sys.step_spec hi hr (.serve cookie mt)).2.2.viaRb)).ws
    unfold Sys.step at hws' ⊢
    simp only at hws' ⊢
    cases hrt : (s.bal.route s.sticky cookie).1 with
    | err e => exact Or.inl rws
    | fwd ref st' =>
      rw [hrt] at hws'
      simp only at hws' ⊢
      rw [if_pos hv] at hws' ⊢
      right
      have hsv : ((s.withBal ((s.bal.route s.sticky cookie).2.mutate ref mt)).reb.adjust s.now).servers =
          (s.reb.adjust s.now).servers := Reb.adjust_servers_bal s.reb _ s.now
      rw [← hsv]
      exact hws'.symm
  rcases hstep with e | e
  · rw [e]
  · rw [e, hws]
    have hl : i < s.reb.servers.length := by
      by_contra hlt
      have : s.reb.marks.1.length = s.reb.servers.length := Reb.marks_length _
      rw [List.getElem?_eq_none (by omega)] at hbad; cases hbad
    have hl' : i < (s.reb.adjust s.now).servers.length := by
      have := congrArg List.length (Reb.adjust_spec (hi.reb hv) s.now).2.1
      simp only [List.length_map] at this
      omega
    have := Reb.adjust_share_le s.reb s.now hm i s.reb.servers[i] (s.reb.adjust s.now).servers[i]
      (List.getElem?_eq_getElem hl) (List.getElem?_eq_getElem hl') hbad
    simpa [sumCur_eq, List.getD_eq_getElem?_getD, hl, hl'] using this

/-- **C10 ("some server is rated an outlier" is a mixed marking)**: with non-negative ratings
    (failure ratios, latencies) the zero sentinel / median guarantee that at least one server is
    rated good, so whenever some server is rated an outlier the adjustment that runs is the marked
    one to which `C10_mixed_share_not_up` and `C10_outlier_loses_partial` apply — never `convergeWeights`. -/
theorem C10_outlier_means_mixed (r : Reb) (hnn : ∀ p ∈ r.servers, 0 ≤ p.rating) (i : Nat)
    (hbad : r.marks.1[i]? = some false) : r.marks.2 = true := by
  have hnn' : ∀ v ∈ r.servers.map (·.rating), 0 ≤ v := by
    intro v hv
    obtain ⟨p, hp, rfl⟩ := List.mem_map.mp hv
    exact hnn p hp
  unfold Reb.marks at hbad ⊢
  exact markServers_mixed _ hnn' i hbad

/-
Full clause: "an adjustment made while some servers are rated as outliers never increases the traffic
share of any outlier", for whatever ratings.  With *negative* ratings every server can be rated an
outlier; then `convergeWeights` runs and the share of an outlier can rise
(`C10_negative_ratings_counterexample`).  Ratings of the built-in meter are ratios in [0,1]; the clause
is proved for non-negative ratings, the hypothesis being explicit.
-/
/-- **C10 (an outlier's share never goes up)**: with non-negative ratings, whenever server `i` is rated
    an outlier at a request, its effective weight `e'ᵢ` after the request satisfies
    `e'ᵢ · Σe ≤ eᵢ · Σe'` — whatever the readiness, timer and history. -/
theorem C10_outlier_share_not_up (st : Bool) (bo : Nat) (nr : Bool) (hist : List Op) (cookie : Option Key)
    (mt : Option Mut) (i : Nat)
    (hnn : ∀ p ∈ (reach st bo nr hist).reb.servers, 0 ≤ p.rating)
    (hbad : (reach st bo nr hist).reb.marks.1[i]? = some false) :
    ((reach st bo nr hist).step (.serve cookie mt)).1.bal.ws.getD i 0 * (reach st bo nr hist).bal.ws.sum
      ≤ (reach st bo nr hist).bal.ws.getD i 0 * ((reach st bo nr hist).step (.serve cookie mt)).1.bal.ws.sum :=
  C10_mixed_share_not_up st bo nr hist cookie mt i (C10_outlier_means_mixed _ hnn i hbad) hbad

/-- with ratings −1, −1 both servers are rated outliers (no mixed marking), the request converges the
    weights [4, 1] back to [1, 1], and the share of the second server — rated an outlier — rises from
    1/5 to 1/2 -/
theorem C10_negative_ratings_counterexample :
    let a : URL := ⟨"http", "a", "/", "", ""⟩
    let b : URL := ⟨"http", "b", "/", "", ""⟩
    let s := reach false 1000 true [.upsert a (some 1), .upsert b (some 1), .rate b.key (1 / 2), .serve none none,
      .rate a.key (-1), .rate b.key (-1), .adv 1001]
    s.bal.ws = [4, 1] ∧ s.reb.marks = ([false, false], false) ∧
    (s.step (.serve none none)).1.bal.ws = [1, 1] := by
  decide +kernel

/-- **C10 (membership / configured-weight change restores the configured weights)**: right after a
    successful add, update or remove every effective weight equals the configured one, and the timer
    is already expired (`now − 1s`), so the next request may adjust again. -/
theorem C10_membership_restores (st : Bool) (bo : Nat) (nr : Bool) (hist : List Op) (op : Op)
    (hadm : op.isAdmin) (hok : ((reach st bo nr hist).step op).2 = .ok) (k : Key) :
    ((reach st bo nr hist).step op).1.bal.weight k = specOf true (hist ++ [op]) k ∧
    ((reach st bo nr hist).step op).1.reb.timer = ((reach st bo nr hist).now : Int) - second := by
  obtain ⟨hi, hr, hv⟩ := reach_spec st bo nr hist
  obtain ⟨a, b, c⟩ := Sys.step_spec hi hr op
  have hv' : ((reach st bo nr hist).step op).1.viaRb = true := by rw [c.viaRb]; exact hv
  have hspec : specOf true (hist ++ [op]) = specStep true (specOf true hist) op := by
    unfold specOf; rw [List.foldl_append]; rfl
  have hconf : ((reach st bo nr hist).step op).1.reb.configured k = specOf true (hist ++ [op]) k := by
    have := b k; unfold Sys.configured at this; rw [if_pos hv'] at this; rw [this, hspec, hv]
  rw [← hconf]
  generalize reach st bo nr hist = s at *
  have hinv := hi.reb hv
  suffices h : (∀ p ∈ (s.step op).1.reb.servers, p.cur = p.orig) ∧ (s.step op).1.reb.timer = (s.now : Int) - second from
    ⟨Sys.restored_of_all_orig a hv' h.1 k, h.2⟩
  cases op with
  | upsert u w =>
    cases w with
    | none =>
      obtain ⟨_, _, _, i4, i5, _⟩ := Reb.upsert_spec hinv s.now u none
      simp only [Sys.step, hv, if_true]
      exact ⟨i4, i5⟩
    | some w =>
      cases w with
      | ofNat w =>
        obtain ⟨_, _, _, i4, i5, _⟩ := Reb.upsert_spec hinv s.now u (some w)
        simp only [Sys.step, hv, if_true]
        exact ⟨i4, i5⟩
      | negSucc w => simp [Sys.step] at hok
  | upsertFailing u w =>
    by_cases hc : (s.viaRb && (s.reb.find u.key).isNone) = true
    · simp [Sys.step, hc] at hok
    · obtain ⟨_, _, _, i4, i5, _⟩ := Reb.upsert_spec hinv s.now u w
      have e : s.step (.upsertFailing u w) = ({ s with reb := s.reb.upsert s.now u w }, .ok) := by
        simp only [Sys.step]; rw [if_neg hc, if_pos hv]
      rw [e]
      exact ⟨i4, i5⟩
  | remove u =>
    cases hrm : s.reb.remove s.now u with
    | none => simp [Sys.step, hv, hrm] at hok
    | some r' =>
      obtain ⟨_, _, i3, i4, _⟩ := Reb.remove_spec hinv hrm
      simp only [Sys.step, hv, if_true, hrm]
      exact ⟨i3, i4⟩
  | next => exact absurd hadm (by simp [Op.isAdmin])
  | serve c m => exact absurd hadm (by simp [Op.isAdmin])
  | rate k' v => exact absurd hadm (by simp [Op.isAdmin])
  | ready k' v => exact absurd hadm (by simp [Op.isAdmin])
  | adv ns => exact absurd hadm (by simp [Op.isAdmin])

/-- **C10 (the timer is never more than one back-off ahead)**: after every history
    `timer ≤ now + backoff`; hence once the clock has advanced by more than the back-off, the timer
    has expired whatever happened before. -/
theorem C10_timer_bound (st : Bool) (bo : Nat) (nr : Bool) (hist : List Op) (d : Nat) :
    (reach st bo nr hist).reb.timer ≤ ((reach st bo nr hist).now : Int) + (reach st bo nr hist).reb.backoff ∧
    ((reach st bo nr hist).reb.backoff < d →
      (reach st bo nr (hist ++ [.adv d])).reb.timer < ((reach st bo nr (hist ++ [.adv d])).now : Int)) := by
  obtain ⟨hi, _, _⟩ := reach_spec st bo nr hist
  refine ⟨hi.timer, ?_⟩
  intro hd
  have e : reach st bo nr (hist ++ [.adv d]) = ((reach st bo nr hist).step (.adv d)).1 := by
    unfold reach Sys.applyOps; rw [List.foldl_append]; rfl
  rw [e]
  have := hi.timer
  show (reach st bo nr hist).reb.timer < (((reach st bo nr hist).now + d : Nat) : Int)
  omega

/-
Full clause: "a server that remains an outlier while all meters are ready loses share within two
back-off intervals unless every *other server* is already at the cap".  The code lets only servers
rated *good* grow (`setMarkedWeights`), so with two outliers and all good servers at the cap the
outlier keeps its share although the other outlier is far below the cap
(`C10_outlier_loses_counterexample`; recorded as known finding `outlier_unless_only_good`).  Proved:
the clause with "every other server" read as "every other server rated good" — the hypothesis
`hgood … hqcap` below.
-/
/-- **C10 (a persisting outlier loses share), partial**: in a reachable state with at least two
    servers, all meters ready and the timer expired, the adjustment strictly lowers the share of every
    server rated an outlier that has positive weight — provided some server *rated good* has positive
    weight and is below the cap (`4·e ≤ 4096`). -/
theorem C10_outlier_loses_partial (st : Bool) (bo : Nat) (nr : Bool) (hist : List Op) (i j : Nat) (p q p' : Rec)
    (hlen : 2 ≤ (reach st bo nr hist).reb.servers.length)
    (hready : (reach st bo nr hist).reb.metricsReady = true)
    (hexp : (reach st bo nr hist).reb.timer < ((reach st bo nr hist).now : Int))
    (hm : (reach st bo nr hist).reb.marks.2 = true)
    (hp : (reach st bo nr hist).reb.servers[i]? = some p) (hbad : (reach st bo nr hist).reb.marks.1[i]? = some false)
    (hpos : 0 < p.cur)
    (hq : (reach st bo nr hist).reb.servers[j]? = some q) (hgood : (reach st bo nr hist).reb.marks.1[j]? = some true)
    (hqpos : 0 < q.cur) (hqcap : 4 * q.cur ≤ 4096)
    (hp' : ((reach st bo nr hist).reb.adjust (reach st bo nr hist).now).servers[i]? = some p') :
    p'.cur * sumCur (reach st bo nr hist).reb.servers
      < p.cur * sumCur ((reach st bo nr hist).reb.adjust (reach st bo nr hist).now).servers :=
  Reb.adjust_share_lt _ _ hm hlen hready hexp i p p' hp hp' hbad hpos ⟨j, q, hq, hgood, hqpos, hqcap⟩

/-- **C10 (… within two back-off intervals), partial — on the observable weights**: after *any* history,
    once the clock has advanced by more than one back-off (`adv d`, `backoff < d`: the timer has expired
    whatever happened before, so at the latest two back-off intervals after the server became an
    outlier), a request — any cookie, any handler — strictly lowers the traffic share of server `i`:
    `e'ᵢ · Σe < eᵢ · Σe'` on the balancer's `ServerWeight`s, provided there are at least two servers,
    all meters are ready, `i` is rated an outlier and has positive weight, and some server `j` rated
    good has positive weight below the cap. -/
theorem C10_outlier_loses_within_partial (st : Bool) (bo : Nat) (nr : Bool) (hist : List Op) (d : Nat)
    (cookie : Option Key) (mt : Option Mut) (i j e g : Nat)
    (hd : (reach st bo nr hist).reb.backoff < d)
    (hlen : 2 ≤ (reach st bo nr (hist ++ [.adv d])).reb.servers.length)
    (hready : (reach st bo nr (hist ++ [.adv d])).reb.metricsReady = true)
    (hm : (reach st bo nr (hist ++ [.adv d])).reb.marks.2 = true)
    (hbad : (reach st bo nr (hist ++ [.adv d])).reb.marks.1[i]? = some false)
    (he : (reach st bo nr (hist ++ [.adv d])).bal.ws[i]? = some e) (hpos : 0 < e)
    (hgood : (reach st bo nr (hist ++ [.adv d])).reb.marks.1[j]? = some true)
    (hg : (reach st bo nr (hist ++ [.adv d])).bal.ws[j]? = some g) (hgpos : 0 < g) (hgcap : 4 * g ≤ 4096) :
    ((reach st bo nr (hist ++ [.adv d])).step (.serve cookie mt)).1.bal.ws.getD i 0
        * (reach st bo nr (hist ++ [.adv d])).bal.ws.sum
      < e * ((reach st bo nr (hist ++ [.adv d])).step (.serve cookie mt)).1.bal.ws.sum := by
  have hexp := (C10_timer_bound st bo nr hist d).2 hd
  obtain ⟨hi, _, hv⟩ := reach_spec st bo nr (hist ++ [.adv d])
  generalize reach st bo nr (hist ++ [.adv d]) = s at *
  have hws : s.bal.ws = s.reb.servers.map (·.cur) := (hi.reb hv).ws.symm
  have hil : i < s.bal.ws.length := by
    by_contra hlt; rw [List.getElem?_eq_none (by omega)] at he; cases he
  have hjl : j < s.bal.ws.length := by
    by_contra hlt; rw [List.getElem?_eq_none (by omega)] at hg; cases hg
  have hp : ∃ w ∈ s.bal.ws, 0 < w := by
    rw [List.getElem?_eq_getElem hjl] at hg
    exact ⟨g, Option.some.inj hg ▸ List.getElem_mem hjl, hgpos⟩
  rw [Sys.serve_ws hi hv hp cookie mt]
  have hsl : s.reb.servers.length = s.bal.ws.length := by rw [hws]; simp
  have his : i < s.reb.servers.length := by omega
  have hjs : j < s.reb.servers.length := by omega
  have hcur : ∀ k (hk : k < s.reb.servers.length) (x : Nat), s.bal.ws[k]? = some x → s.reb.servers[k].cur = x := by
    intro k hk x hx
    rw [hws, List.getElem?_map, List.getElem?_eq_getElem hk] at hx
    exact Option.some.inj hx
  have hl' : i < (s.reb.adjust s.now).servers.length := by
    have := congrArg List.length (Reb.adjust_spec (hi.reb hv) s.now).2.1
    simp only [List.length_map] at this
    omega
  have := Reb.adjust_share_lt s.reb s.now hm hlen hready hexp i s.reb.servers[i] (s.reb.adjust s.now).servers[i]
    (List.getElem?_eq_getElem his) (List.getElem?_eq_getElem hl') hbad
    (by rw [hcur i his e he]; exact hpos)
    ⟨j, s.reb.servers[j], List.getElem?_eq_getElem hjs, hgood, by rw [hcur j hjs g hg]; exact hgpos,
      by rw [hcur j hjs g hg]; exact hgcap⟩
  rw [hcur i his e he] at this
  rw [hws]
  simpa [sumCur_eq, List.getD_eq_getElem?_getD, hl'] using this

/-- the witness of known finding `outlier_unless_only_good`: four servers of weight 1, two of them
    rated outliers (½, ½, 0, 0); after six adjustments the weights are [1, 1, 4096, 4096]; server 0 is
    still rated an outlier, all meters are ready, the timer has expired, server 1 (another server) has
    weight 1 — far from the cap — and yet the next request leaves the share of server 0 where it was -/
theorem C10_outlier_loses_counterexample :
    let u (h : String) : URL := ⟨"http", h, "/", "", ""⟩
    let round : List Op := [.serve none none, .adv 2000]
    let s := reach false 1000 true ([.upsert (u "a") (some 1), .upsert (u "b") (some 1), .upsert (u "c") (some 1),
      .upsert (u "d") (some 1), .rate (u "a").key (1 / 2), .rate (u "b").key (1 / 2)]
      ++ round ++ round ++ round ++ round ++ round ++ round)
    s.bal.ws = [1, 1, 4096, 4096] ∧ s.reb.marks = ([false, false, true, true], true) ∧
    s.reb.metricsReady = true ∧ s.reb.timer < (s.now : Int) ∧
    (s.step (.serve none none)).1.bal.ws = [1, 1, 4096, 4096] := by
  decide +kernel

/-- **C10 (convergence within six adjustments)**: from any reachable state, six adjustments that run
    with no server rated differently from the others (meter readings may change in between) leave
    the effective weights proportional to the configured ones: `∃ g > 0, ∀ server, cur · g = orig`. -/
theorem C10_converges_in_6 (st : Bool) (bo : Nat) (nr : Bool) (hist : List Op) (r1 r2 r3 r4 r5 r6 : Reb)
    (h1 : ConvAdj (reach st bo nr hist).reb r1) (h2 : ConvAdj r1 r2) (h3 : ConvAdj r2 r3)
    (h4 : ConvAdj r3 r4) (h5 : ConvAdj r4 r5) (h6 : ConvAdj r5 r6) :
    ∃ g, 0 < g ∧ ∀ p ∈ r6.servers, p.cur * g = p.orig := by
  obtain ⟨hi, _, hv⟩ := reach_spec st bo nr hist
  have b0 : ∀ p ∈ (reach st bo nr hist).reb.servers, Bounded (4 * 1024) p := (hi.reb hv).bounded
  have b1 := h1.bounded b0
  have b2 := h2.bounded (T := 256) b1
  have b3 := h3.bounded (T := 64) b2
  have b4 := h4.bounded (T := 16) b3
  have b5 := h5.bounded (T := 4) b4
  exact h6.final b5

/-! ### non-vacuity -/

private def u (h : String) : URL := ⟨"http", h, "/", "", ""⟩
private def hist0 : List Op :=
  [.upsert (u "a") (some 1), .upsert (u "b") (some 1), .upsert (u "c") (some 3), .rate (u "b").key (1 / 2)]

-- a mixed marking: `b` is the outlier; the request's adjustment lifts the good servers ×4
example : (reach false 1000 true hist0).reb.marks = ([true, false, true], true) := by decide +kernel
example : ((reach false 1000 true hist0).step (.serve none none)).1.bal.ws = [4, 1, 12] := by decide +kernel
example : ∀ p ∈ (reach false 1000 true hist0).reb.servers, 0 ≤ p.rating := by decide +kernel
-- hypotheses of `C10_outlier_loses_partial` hold there
example : 2 ≤ (reach false 1000 true hist0).reb.servers.length ∧ (reach false 1000 true hist0).reb.metricsReady = true ∧
    (reach false 1000 true hist0).reb.timer < ((reach false 1000 true hist0).now : Int) := by decide +kernel
-- a converging adjustment (`ConvAdj`) exists: after the ratings are equal again and the back-off has passed
example : ConvAdj (reach false 1000 true (hist0 ++ [.serve none none, .rate (u "b").key 0, .adv 1001])).reb
    ((reach false 1000 true (hist0 ++ [.serve none none, .rate (u "b").key 0, .adv 1001])).reb.adjust 1001) :=
  ⟨_, 1001, rfl, by decide +kernel, by decide +kernel, by decide +kernel, by decide +kernel, rfl⟩
example : (((reach false 1000 true (hist0 ++ [.serve none none, .rate (u "b").key 0, .adv 1001])).reb.adjust 1001).servers.map
    fun p => (p.orig, p.cur)) = [(1, 1), (1, 1), (3, 3)] := by decide +kernel
-- a continuation without administration calls (`C10_once_per_backoff`), during which the clock stays below the timer
example : ∀ op ∈ [Op.serve none none, Op.adv 500, Op.rate (u "a").key 1, Op.serve none none], ¬ op.isAdmin := by
  intro op h
  simp only [List.mem_cons, List.not_mem_nil, or_false] at h
  rcases h with rfl | rfl | rfl | rfl <;> simp [Op.isAdmin]
example : (((reach false 1000 true (hist0 ++ [.serve none none])).applyOps [.adv 500, .serve none none]).now : Int)
    ≤ (reach false 1000 true (hist0 ++ [.serve none none])).reb.timer := by decide +kernel
-- hypotheses of `C10_outlier_loses_within_partial`: after `adv 1001 > backoff` server 1 is the outlier (weight 1), server 0 good below the cap
example : (reach false 1000 true (hist0 ++ [.adv 1001])).reb.marks.1[1]? = some false ∧
    (reach false 1000 true (hist0 ++ [.adv 1001])).bal.ws[1]? = some 1 ∧
    (reach false 1000 true (hist0 ++ [.adv 1001])).reb.marks.1[0]? = some true ∧
    (reach false 1000 true (hist0 ++ [.adv 1001])).bal.ws[0]? = some 1 ∧
    (reach false 1000 true hist0).reb.backoff < 1001 := by decide +kernel
-- `C10_range` / `C10_membership_restores` hypotheses
example : specOf true hist0 (u "c").key = some 3 := by decide +kernel
example : ((reach false 1000 true hist0).step (.remove (u "a"))).2 = .ok := by decide +kernel

end C10
