import OxyModel.Proofs.Buffer.Loop

/-!
# C07 — the client gets exactly one response: the final attempt's, after bounded retries

Property theorems only.  Model: `Buf.serve` (`OxyModel/Model/Buffer.lean`) and the retry expressions of
`OxyModel/Model/RetryExpr.lean` (`compile` = the predicate the Go combinators build).
`(serve …).resp` is everything `Buffer` sent to the client's `ResponseWriter`: one status, the header
map at that moment, the body bytes.  Vocabulary (`OxyModel/Proofs/Buffer/Spec.lean`): `capCode a` the
status captured for an attempt, `finalStatus a` that status with 0 read as 200, `respHeaderOf a` the
response headers it set, `bodyAllowed m a` the response kind carries a body (not HEAD / 1xx / 204 / 304 /
`Content-Length: 0` / non-zero `Grpc-Status`), `overLimit cfg a` its body exceeds the response maximum
(C15's clause), `hijackEff cfg a` it took the connection over.
-/
namespace C07
open Buf RetryExpr

/-! ## the expression language -/

/-- ordinary reading of a retry expression: Boolean connectives, `=`, `≠`, `<`, `>`, `≤`, `≥` on naturals,
    string equality; written independently of the Go combinators -/
def denote : Expr → Ctx → Prop
  | .and a b, c => denote a c ∧ denote b c
  | .or a b, c => denote a c ∨ denote b c
  | .isNetworkError, c => c.code = 502 ∨ c.code = 504
  | .cmp .attempts .eq v, c => c.attempt = v
  | .cmp .attempts .neq v, c => c.attempt ≠ v
  | .cmp .attempts .lt v, c => c.attempt < v
  | .cmp .attempts .gt v, c => c.attempt > v
  | .cmp .attempts .le v, c => c.attempt ≤ v
  | .cmp .attempts .ge v, c => c.attempt ≥ v
  | .cmp .responseCode .eq v, c => c.code = v
  | .cmp .responseCode .neq v, c => c.code ≠ v
  | .cmp .responseCode .lt v, c => c.code < v
  | .cmp .responseCode .gt v, c => c.code > v
  | .cmp .responseCode .le v, c => c.code ≤ v
  | .cmp .responseCode .ge v, c => c.code ≥ v
  | .methodEq s, c => c.method = s
  | .methodNeq s, c => c.method ≠ s

/-- **C07 (standard semantics)**: for every expression of the grammar and every (attempt, response code,
    method), the predicate built from the Go combinators (`and`/`or` loops, `neq = not eq`, `le = lt || eq`,
    `ge = gt || eq`) is true exactly when the expression holds under the ordinary reading. -/
theorem C07_eval_standard (e : Expr) (c : Ctx) : compile e c = true ↔ denote e c := by
  induction e with
  | and a b iha ihb =>
    simp only [compile, andP, denote, ← iha, ← ihb]
    cases compile a c <;> cases compile b c <;> simp
  | or a b iha ihb =>
    simp only [compile, orP, denote, ← iha, ← ihb]
    cases compile a c <;> cases compile b c <;> simp
  | isNetworkError => simp [compile, isNetworkErrorP, denote]
  | cmp f op v =>
    cases f <;> cases op <;>
      simp [compile, cmpP, denote, intEQ, intLT, intGT, notP, decide_eq_true_eq] <;>
      simp only [IntFn.get] <;> omega
  | methodEq s => simp [compile, stringEQ, denote]
  | methodNeq s => simp [compile, stringEQ, notP, denote]

/-! ## the loop -/

/-- attempt `j` is followed by another invocation: it returned (no panic), did not take the connection over, its response was
    within the limit, it is not past the 10th, and the configured expression holds of it -/
def retryCond (cfg : Cfg) (req : Req) (script : Nat → Attempt) (j : Nat) : Prop :=
  ¬ panics (script j) ∧ ¬ hijackEff cfg (script j) ∧ ¬ overLimit cfg (script j) ∧ j ≤ 10 ∧
  ∃ e, cfg.retry = some e ∧ denote e ⟨j, capCode (script j), req.method⟩

private theorem shouldRetry_iff (cfg : Cfg) (req : Req) (j c : Nat) :
    shouldRetry cfg req j c = true ↔ j ≤ 10 ∧ ∃ e, cfg.retry = some e ∧ denote e ⟨j, c, req.method⟩ := by
  unfold shouldRetry
  cases hr : cfg.retry with
  | none => simp
  | some e =>
    simp only [DefaultMaxRetryAttempts, Option.some.injEq, exists_eq_left']
    by_cases hj : j > 10
    · simp only [hj, if_true]; constructor
      · intro h; cases h
      · intro h; omega
    · simp only [hj, if_false, C07_eval_standard]
      constructor
      · intro h; exact ⟨by omega, h⟩
      · intro h; exact h.2

private theorem att_retry_iff (cfg : Cfg) (req : Req) (script : Nat → Attempt) (j : Nat) :
    (Att cfg req script j).outcome = .retry ↔ retryCond cfg req script j := by
  obtain ⟨_, s0, s1, s2, s3, s4⟩ := settle_spec cfg req j (script j)
  unfold Att retryCond
  constructor
  · intro h
    by_cases hp : panics (script j)
    · rw [s0 hp] at h; cases h
    by_cases hh : hijackEff cfg (script j)
    · rw [s1 hp hh] at h; cases h
    · by_cases ho : overLimit cfg (script j)
      · rw [s2 hp hh ho] at h; cases h
      · cases hsr : shouldRetry cfg req j (capCode (script j))
        · obtain ⟨up, hu, _⟩ := s4 hp hh ho hsr
          rw [hu] at h; cases h
        · have := (shouldRetry_iff cfg req j _).mp hsr
          exact ⟨hp, hh, ho, this.1, this.2⟩
  · rintro ⟨hp, hh, ho, hj, he⟩
    exact s3 hp hh ho ((shouldRetry_iff cfg req j _).mpr ⟨hj, he⟩)

/-- what the loop does for an admitted request, in terms of the final attempt `n` -/
private theorem run (cfg : Cfg) (req : Req) (script : Nat → Attempt) (hadm : ¬ requestOver cfg req) :
    1 ≤ (serve cfg req script).invocations ∧ (serve cfg req script).invocations ≤ 11 ∧
    (serve cfg req script).outOfFuel = false ∧
    (∀ j, 1 ≤ j → j < (serve cfg req script).invocations → (Att cfg req script j).outcome = .retry) ∧
    (Att cfg req script (serve cfg req script).invocations).outcome ≠ .retry ∧
    ((Att cfg req script (serve cfg req script).invocations).outcome = .hijacked →
      (serve cfg req script).hijacked = true ∧ (serve cfg req script).resp = {}) ∧
    (∀ up, (Att cfg req script (serve cfg req script).invocations).outcome = .final up →
      (serve cfg req script).hijacked = false ∧ (serve cfg req script).panicked = false ∧ (serve cfg req script).resp = up) ∧
    ((Att cfg req script (serve cfg req script).invocations).outcome = .panicked →
      (serve cfg req script).panicked = true ∧ (serve cfg req script).resp = {}) := by
  obtain ⟨b, c, _, _, _, hs⟩ := serve_admitted cfg req script hadm
  obtain ⟨m, m1, m2, m3, m4, m5, m6, m7, m8, m9⟩ :=
    loop_decide cfg req (Heap.ofReq req).2 (ofReq_spec req).1 script req.body.length c c (DefaultMaxRetryAttempts + 1) 1
      (if req.body.length == 0 then none else some b) [] [] (Heap.ofReq req).1 (by decide) (by decide)
  have hn : (serve cfg req script).invocations = m := by
    unfold Result.invocations; rw [hs, m5]; simp
  rw [hn]
  rw [← hs] at m6 m7 m8 m9
  exact ⟨m1, m2, m6, m3, m4, fun h => ⟨(m7 h).1, (m7 h).2.2⟩, m8, fun h => ⟨(m9 h).2.1, (m9 h).2.2⟩⟩

/-- **C07 (at most 11 invocations)** — for every configuration, request and script; and the model's loop
    fuel is never exhausted, so it is not a restriction. -/
theorem C07_at_most_11 (cfg : Cfg) (req : Req) (script : Nat → Attempt) :
    (serve cfg req script).invocations ≤ 11 ∧ (serve cfg req script).outOfFuel = false := by
  by_cases hov : requestOver cfg req
  · obtain ⟨c, hc⟩ := serve_rejected cfg req script hov
    rw [hc]; exact ⟨Nat.zero_le _, rfl⟩
  · have := run cfg req script hov
    exact ⟨this.2.1, this.2.2.1⟩

/-- **C07 (invoked once without a retry condition)**: an admitted request (body within the request maximum)
    reaches the handler exactly once when no expression is configured. -/
theorem C07_once_without_predicate (cfg : Cfg) (req : Req) (script : Nat → Attempt)
    (hadm : ¬ requestOver cfg req) (hnone : cfg.retry = none) : (serve cfg req script).invocations = 1 := by
  obtain ⟨h1, _, _, h4, _⟩ := run cfg req script hadm
  by_cases h : (serve cfg req script).invocations = 1
  · exact h
  · exfalso
    have := (att_retry_iff cfg req script 1).mp (h4 1 (Nat.le_refl _) (by omega))
    obtain ⟨_, _, _, _, e, he, _⟩ := this
    rw [hnone] at he; cases he

/-- **C07 (invoked again exactly after the attempts for which the expression is true)**: for an admitted
    request and every `k`, there are more than `k` invocations iff every attempt `1 … k` satisfied
    `retryCond` — in particular the expression, read with standard semantics over (attempt number, captured
    response code, request method), was true of each of them. -/
theorem C07_retry_iff_predicate (cfg : Cfg) (req : Req) (script : Nat → Attempt) (hadm : ¬ requestOver cfg req)
    (k : Nat) :
    k < (serve cfg req script).invocations ↔ ∀ j, 1 ≤ j → j ≤ k → retryCond cfg req script j := by
  obtain ⟨h1, _, _, h4, h5, _⟩ := run cfg req script hadm
  constructor
  · intro hlt j hj1 hjk
    exact (att_retry_iff cfg req script j).mp (h4 j hj1 (by omega))
  · intro hall
    by_cases hlt : k < (serve cfg req script).invocations
    · exact hlt
    · exfalso
      exact h5 ((att_retry_iff cfg req script _).mpr (hall _ h1 (by omega)))

/-- **C07 (exactly the final attempt's response)**: for an admitted request let `n` be the number of
    invocations.  Unless attempt `n` panicked, took the connection over or overflowed the response maximum (C15),
    the one response handed to the client's `ResponseWriter` has attempt `n`'s status (200 if it chose none),
    exactly attempt `n`'s headers, and — for a response kind that carries a body — exactly attempt `n`'s written
    bytes in order: a function of `script n` alone, so nothing of the discarded attempts `1 … n-1` is in it.
    (Which final attempts lose their body is `C07_body_dropped_kinds`.) -/
theorem C07_final_only (cfg : Cfg) (req : Req) (script : Nat → Attempt) (hadm : ¬ requestOver cfg req)
    (hp : ¬ panics (script (serve cfg req script).invocations))
    (hh : ¬ hijackEff cfg (script (serve cfg req script).invocations))
    (ho : ¬ overLimit cfg (script (serve cfg req script).invocations)) :
    (serve cfg req script).resp.status = some (finalStatus (script (serve cfg req script).invocations)) ∧
    (serve cfg req script).resp.sentHeader =
      Header.copyInto [] (respHeaderOf (script (serve cfg req script).invocations)) ∧
    (bodyAllowed req.method (script (serve cfg req script).invocations) →
      (serve cfg req script).resp.body = (script (serve cfg req script).invocations).writes.flatten) ∧
    (serve cfg req script).hijacked = false ∧ (serve cfg req script).panicked = false := by
  obtain ⟨_, _, _, _, h5, _, h7, _⟩ := run cfg req script hadm
  generalize (serve cfg req script).invocations = n at *
  obtain ⟨_, _, _, _, s3, s4⟩ := settle_spec cfg req n (script n)
  cases hsr : shouldRetry cfg req n (capCode (script n))
  · obtain ⟨up, hu, u1, u2, u3⟩ := s4 hp hh ho hsr
    obtain ⟨r1, r2, r3⟩ := h7 up hu
    rw [r3]
    refine ⟨u1, u2, ?_, r1, r2⟩
    intro hb; rw [u3]; unfold finalBody; rw [if_pos hb]
  · exact absurd (s3 hp hh ho hsr) h5

/-- **C07 (which final attempts lose their body)** — recorded behaviour of `expectBody`, kept apart from
    `C07_final_only`: the final attempt's written bytes are withheld exactly for a HEAD request, a 1xx / 204 / 304
    status, a response header `Content-Length: 0`, or a response header `Grpc-Status` other than "" and "0"; the
    client then receives the attempt's status and headers with an empty body.  The first four are response kinds
    that carry no body by RFC 2616 §4.4; the last two drop bytes that a handler served directly by `net/http`
    would have delivered. -/
theorem C07_body_dropped_kinds (cfg : Cfg) (req : Req) (script : Nat → Attempt) (hadm : ¬ requestOver cfg req)
    (hp : ¬ panics (script (serve cfg req script).invocations))
    (hh : ¬ hijackEff cfg (script (serve cfg req script).invocations))
    (ho : ¬ overLimit cfg (script (serve cfg req script).invocations)) :
    (¬ bodyAllowed req.method (script (serve cfg req script).invocations) ↔
      (req.method = "HEAD" ∨
       (100 ≤ capCode (script (serve cfg req script).invocations) ∧ capCode (script (serve cfg req script).invocations) < 200) ∨
       capCode (script (serve cfg req script).invocations) = 204 ∨ capCode (script (serve cfg req script).invocations) = 304 ∨
       Header.get (respHeaderOf (script (serve cfg req script).invocations)) "Content-Length" = "0" ∨
       (Header.get (respHeaderOf (script (serve cfg req script).invocations)) "Grpc-Status" ≠ "" ∧
        Header.get (respHeaderOf (script (serve cfg req script).invocations)) "Grpc-Status" ≠ "0"))) ∧
    (¬ bodyAllowed req.method (script (serve cfg req script).invocations) → (serve cfg req script).resp.body = []) := by
  obtain ⟨_, _, _, _, h5, _, h7, _⟩ := run cfg req script hadm
  generalize (serve cfg req script).invocations = n at *
  constructor
  · unfold bodyAllowed
    generalize capCode (script n) = c
    generalize Header.get (respHeaderOf (script n)) "Content-Length" = cl
    generalize Header.get (respHeaderOf (script n)) "Grpc-Status" = g
    by_cases a1 : req.method = "HEAD" <;> by_cases a2 : (100 ≤ c ∧ c < 200) <;> by_cases a3 : c = 204 <;>
      by_cases a4 : c = 304 <;> by_cases a5 : cl = "0" <;> by_cases a6 : g = "" <;> by_cases a7 : g = "0" <;>
      simp [a1, a2, a3, a4, a5, a6, a7]
  · intro hb
    obtain ⟨_, _, _, _, s3, s4⟩ := settle_spec cfg req n (script n)
    cases hsr : shouldRetry cfg req n (capCode (script n))
    · obtain ⟨up, hu, u1, u2, u3⟩ := s4 hp hh ho hsr
      obtain ⟨r1, r2, r3⟩ := h7 up hu
      rw [r3, u3]; unfold finalBody; rw [if_neg hb]
    · exact absurd (s3 hp hh ho hsr) h5

/-- **C07 (implicit 200)**: if the final attempt never chose a status, the client receives 200. -/
theorem C07_implicit_200 (cfg : Cfg) (req : Req) (script : Nat → Attempt) (hadm : ¬ requestOver cfg req)
    (hp : ¬ panics (script (serve cfg req script).invocations))
    (hh : ¬ hijackEff cfg (script (serve cfg req script).invocations))
    (ho : ¬ overLimit cfg (script (serve cfg req script).invocations))
    (hst : (script (serve cfg req script).invocations).status = none)
    (hls : (script (serve cfg req script).invocations).lateStatus = none) :
    (serve cfg req script).resp.status = some 200 := by
  rw [(C07_final_only cfg req script hadm hp hh ho).1]
  unfold finalStatus capCode
  rw [hst, hls]; simp

/-- **C07 (an empty body is delivered as empty)**: if the final attempt wrote no bytes (no `Write`, or only empty
    ones, with or without `Content-Length: 0`), the client receives that attempt's status with an empty body —
    not an error. -/
theorem C07_empty_body_empty (cfg : Cfg) (req : Req) (script : Nat → Attempt) (hadm : ¬ requestOver cfg req)
    (hp : ¬ panics (script (serve cfg req script).invocations))
    (hh : ¬ hijackEff cfg (script (serve cfg req script).invocations))
    (hemp : (script (serve cfg req script).invocations).writes.flatten = []) :
    (serve cfg req script).resp.status = some (finalStatus (script (serve cfg req script).invocations)) ∧
    (serve cfg req script).resp.body = [] := by
  have ho : ¬ overLimit cfg (script (serve cfg req script).invocations) := by
    intro ⟨h1, h2⟩
    have : sumLen (script (serve cfg req script).invocations).writes = 0 := by
      have := congrArg List.length hemp
      simpa [sumLen, List.length_flatten] using this
    rw [this] at h2; omega
  obtain ⟨f1, _, f3, _⟩ := C07_final_only cfg req script hadm hp hh ho
  refine ⟨f1, ?_⟩
  by_cases hb : bodyAllowed req.method (script (serve cfg req script).invocations)
  · rw [f3 hb, hemp]
  · exact (C07_body_dropped_kinds cfg req script hadm hp hh ho).2 hb

/-- **C07 (a panicking handler)**: if the last invocation panics, `Buffer` writes nothing at all (net/http then
    aborts the connection); earlier, discarded attempts still leave nothing. -/
theorem C07_panic_nothing_written (cfg : Cfg) (req : Req) (script : Nat → Attempt) (hadm : ¬ requestOver cfg req)
    (hp : panics (script (serve cfg req script).invocations)) :
    (serve cfg req script).resp.status = none ∧ (serve cfg req script).resp.body = [] ∧
    (serve cfg req script).panicked = true := by
  obtain ⟨_, _, _, _, _, _, _, h8⟩ := run cfg req script hadm
  generalize (serve cfg req script).invocations = n at *
  have := (settle_spec cfg req n (script n)).2.1 hp
  obtain ⟨r1, r2⟩ := h8 this
  rw [r2]; exact ⟨rfl, rfl, r1⟩

/-! ## non-vacuity -/

def exExpr : Expr := .and (.cmp .attempts .lt 4) (.or .isNetworkError (.cmp .responseCode .ge 503))
def exCfg : Cfg := { retry := some exExpr }
def exReq : Req := { method := "GET", url := "/", header := [], chunked := false, body := [] }
/-- attempts 1 and 2 fail with 502 / 503 and a body, attempt 3 writes "hi" without choosing a status -/
def exScript : Nat → Attempt
  | 1 => { status := some 502, respHdr := [("X-Try", "1")], writes := [[1, 1, 1]] }
  | 2 => { status := some 503, respHdr := [("X-Try", "2")], writes := [[2, 2]] }
  | _ => { respHdr := [("X-Try", "3")], writes := [[104], [], [105]] }

example : ¬ requestOver exCfg exReq := by decide
example : (serve exCfg exReq exScript).invocations = 3 := by decide
example : ¬ panics (exScript 3) ∧ ¬ hijackEff exCfg (exScript 3) ∧ ¬ overLimit exCfg (exScript 3) ∧ bodyAllowed exReq.method (exScript 3) := by decide
example : (serve exCfg exReq exScript).resp.status = some 200 ∧ (serve exCfg exReq exScript).resp.body = [104, 105] ∧
    (serve exCfg exReq exScript).resp.sentHeader = [("X-Try", ["3"])] := by decide
example : retryCond exCfg exReq exScript 1 := by
  refine ⟨by decide, by decide, by decide, by decide, exExpr, rfl, ?_⟩
  simp [exExpr, denote, exScript, capCode]
/-- eleven invocations are reached: `Attempts() >= 0` is always true -/
example : (serve { retry := some (.cmp .attempts .ge 0) } exReq (fun _ => {})).invocations = 11 := by decide +kernel
/-- empty final body, no `Content-Length: 0` -/
example : (serve {} exReq (fun _ => { status := some 201 })).resp.status = some 201 ∧
    (serve {} exReq (fun _ => { status := some 201 })).resp.body = [] := by decide

/-- a dropped-body kind: `Grpc-Status: 2` with a written body -/
example : (serve {} exReq (fun _ => { respHdr := [("Grpc-Status", "2")], writes := [[1, 2]] })).resp.body = [] ∧
    ¬ bodyAllowed "GET" { respHdr := [("Grpc-Status", "2")], writes := [[1, 2]] } := by decide
/-- a late `WriteHeader` replaces the captured status; a late header is delivered -/
example : (serve {} exReq (fun _ => { writes := [[1]], lateStatus := some 500, lateHdr := [("X-Late", "1")] })).resp.status = some 500 ∧
    (serve {} exReq (fun _ => { writes := [[1]], lateStatus := some 500, lateHdr := [("X-Late", "1")] })).resp.sentHeader = [("X-Late", ["1"])] := by
  decide
/-- a panic after a discarded attempt: nothing written -/
example : (serve { retry := some (.cmp .attempts .lt 2) } exReq (fun k => if k = 1 then Attempt.mk none [] none [] (some 502) [[1]] [] none false false false
    else Attempt.mk none [] none [] none [[2]] [] none false false true)).resp.status = none := by decide

end C07
