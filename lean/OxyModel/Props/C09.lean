import OxyModel.Proofs.Locks.Sound
import OxyModel.Proofs.Locks.Counter
import OxyModel.Proofs.Locks.Check
import OxyModel.Proofs.Locks.Exec
import OxyModel.Proofs.Locks.Update
import OxyModel.Generated.LockFacts

/-!
# C09 — data-race freedom of every middleware (PARTIAL by nature)

Property: "Every middleware may serve any number of requests concurrently, together with its runtime
administration and inspection calls, without data races: no unsynchronised conflicting access to shared
state occurs and no counter update is lost."

Full statement (not provable about a pure model, kept visible):
  `∀ middleware M, ∀ interleaving es of ServeHTTP / admin / inspection calls on one instance of M
     executed by the Go runtime:  ¬ Race es v  for every shared variable v,  and every counter of M
     ends with exactly the number of increments performed`.
What is proved here:
  * `C09_lockset_sound`, `C09_no_race`: in EVERY execution admitted by the RW-lock semantics (no bound
    on threads, locks, length), if every access to `v` happens under one fixed lock `ℓ` (exclusively
    for writes), then any two conflicting accesses by different threads are separated by a release of
    `ℓ` by the first thread and a later acquisition by the second, i.e. ordered by happens-before.
  * `C09_no_lost_update`: abstract half — a counter machine whose step function *enforces* "load and
    store of one increment inside one exclusive critical section" never loses an increment.
  * `C09_no_lost_update_general`: the same WITHOUT the discipline built into the semantics: plain memory
    semantics on the lock executions; hypotheses `Guarded` and `AtomicUpdates` (each write is the store
    of a read-modify-write whose load happened in the same critical section).
  * `C09_updates_atomic`: on the regenerated facts no write site is a split update (value or guard taken
    from a load of the variable in another critical section), and every counter variable (all write
    sites one-statement read-modify-writes) has them under its lock held exclusively;
    `C09_no_lost_update_facts`: hence executions that conform to the facts lose no update of a counter
    variable.
  * `C09_discipline`: the lock facts REGENERATED from the repository's sources on every run satisfy that
    discipline for every shared variable (kernel-evaluated Boolean checker + soundness lemma).
  * `C09_race_free_partial`: the three together, for every execution that conforms to the facts.
  * `C09_race_free_instances_partial`: the end-to-end statement for executions over lock / variable
    *instances* (several breakers in one stack …): a class-level fact speaks about the lock instance of
    the object the accessed variable instance lives in.
What is missing (hence partial): that the real executions of the Go program conform to the extracted
facts (the translator, `/verif/harness/locks`, is trusted for that; exercised by `-race` stress runs),
and Go's memory model for `sync` (assumed as the `step` semantics).
-/
namespace C09
open Locks

/-- the shared variables of the generated table -/
def sharedVars : List Nat := List.range Generated.groups.length

/-- **Lockset soundness.** In every well-formed execution in which each access to `v` holds the fixed
    lock `ℓ` (exclusively when writing), two conflicting accesses to `v` by different threads have, in
    between, a release of `ℓ` by the first thread followed by an acquisition of `ℓ` by the second, one
    of the two in exclusive mode (a synchronises-with edge of the Go memory model). -/
theorem C09_lockset_sound (es pre mid post : List Ev) (t1 t2 v ℓ : Nat) (w1 w2 : Bool)
    (hwf : WellFormed es) (hg : Guarded ℓ v es)
    (hes : es = pre ++ [Ev.acc t1 v w1] ++ mid ++ [Ev.acc t2 v w2] ++ post)
    (hne : t1 ≠ t2) (hconf : w1 = true ∨ w2 = true) :
    ∃ (a b c : List Ev) (m1 m2 : Bool),
      mid = a ++ [Ev.rel t1 ℓ m1] ++ b ++ [Ev.acq t2 ℓ m2] ++ c ∧ (m1 = true ∨ m2 = true) := by
  subst hes
  exact lockset_sound_split pre mid post t1 t2 v ℓ w1 w2 hwf hg hne hconf

/-- … hence no data race on `v` with respect to happens-before (program order ∪ unlock→later lock). -/
theorem C09_no_race (es : List Ev) (ℓ v : Nat) (hwf : WellFormed es) (hg : Guarded ℓ v es) : ¬ Race es v :=
  no_race es ℓ v hwf hg

/-- **No lost update.** Every interleaving of increments (load, then store of loaded+1) performed while
    holding the lock exclusively leaves the counter at exactly the number of increments. -/
theorem C09_no_lost_update (es : List CEv) (s : CS) (h : crun true CS.init es = some s) :
    s.mem = increments es := by
  have := (crun_count es CS.init s h cinv_init).2
  simpa [CS.init] using this

/-- **No lost update, discipline not built in.** Plain memory semantics (`vrun`: a read loads into the
    thread's register, a write stores register+1; lost updates are expressible, see the example below).
    If all accesses to `v` hold `ℓ` (exclusively for writes) and every write is the store of a
    read-modify-write whose load happened earlier in the same critical section of `ℓ`, then the final value
    is exactly the number of updates — for every well-formed interleaving. -/
theorem C09_no_lost_update_general (es : List Ev) (ℓ v : Nat) (hwf : WellFormed es) (hg : Guarded ℓ v es)
    (ha : AtomicUpdates ℓ v es) : (vrun v VS.init es).mem = writesTo v es :=
  no_lost_update_general ℓ v es hwf hg ha

/-- **Discipline of the repository** (regenerated facts): every shared variable has one fixed lock that
    is held at every access site, exclusively at every write site. -/
theorem C09_discipline : ∀ v ∈ sharedVars, Disciplined Generated.facts v := by
  intro v _
  exact checkAll_sound (gs := Generated.groups) (by decide +kernel) v

/-- PARTIAL end-to-end statement: an execution that is admitted by the lock semantics and behaves as the
    generated facts say has no data race on any shared variable.  Missing for the full property: that the
    executions of the real program conform to the facts (trusted translator + `-race` runs). -/
theorem C09_race_free_partial (es : List Ev) (hwf : WellFormed es) (hc : Conforms Generated.facts es) :
    ∀ v ∈ sharedVars, ¬ Race es v := by
  intro v hv
  obtain ⟨ℓ, hd⟩ := C09_discipline v hv
  exact C09_no_race es ℓ v hwf (conforms_guarded hc hd)

/-- **Update sites of the repository** (regenerated facts): no write site is a split update, and every
    counter variable has all its write sites as one-statement read-modify-writes under one fixed lock
    held exclusively. -/
theorem C09_updates_atomic :
    (∀ f ∈ Generated.facts, f.kind ≠ 3) ∧
    ∀ v ∈ Generated.counterVars, ∃ ℓ, DisciplinedBy Generated.facts v ℓ ∧ UpdatesAtomicBy Generated.facts v ℓ := by
  refine ⟨noSplitB_sound (by decide +kernel), ?_⟩
  intro v hv
  have hall : (Generated.counterVars.all fun v => isCounterB Generated.facts v) = true := by decide +kernel
  rw [List.all_eq_true] at hall
  obtain ⟨ℓ, hd⟩ := checkAll_sound (gs := Generated.groups) (by decide +kernel) v
  exact ⟨ℓ, hd, updatesAtomic_of hd (isCounterB_sound (hall v hv))⟩

/-- PARTIAL: executions that are admitted by the lock semantics and behave as the generated facts say
    (`Conforms` for the locks held at each access, `ConformsU` for the shape of update sites) lose no
    update of any counter variable.  Missing for the full property: the same two trusted links as for
    `C09_race_free_partial`; variables that are also reset by plain stores (e.g. `RollingCounter.values`)
    are covered by the first half of `C09_updates_atomic` and by the stress totals only. -/
theorem C09_no_lost_update_facts (es : List Ev) (hwf : WellFormed es) (hc : Conforms Generated.facts es)
    (hu : ConformsU Generated.facts es) :
    ∀ v ∈ Generated.counterVars, (vrun v VS.init es).mem = writesTo v es := by
  intro v hv
  obtain ⟨ℓ, hd, ha⟩ := C09_updates_atomic.2 v hv
  exact C09_no_lost_update_general es ℓ v hwf (conforms_guarded hc hd) (conformsU_atomic hwf hu ha)

/-- PARTIAL, instance level: `es` ranges over lock and variable *instances* (two breakers in a stack hold
    two different mutexes of the same class at once — such an execution is well-formed here).  `vcls v` is
    the class (fact variable) of instance `v`, `obj v` the object it lives in, `lockOf o c` the instance of
    lock class `c` of object `o`; helper objects belong to the object that owns them. -/
theorem C09_race_free_instances_partial (es : List Ev) (vcls obj : Nat → Nat) (lockOf : Nat → Nat → Nat)
    (hwf : WellFormed es) (hc : ConformsI Generated.facts vcls obj lockOf es) :
    ∀ v, vcls v ∈ sharedVars → ¬ Race es v := by
  intro v hv
  obtain ⟨c, hd⟩ := C09_discipline (vcls v) hv
  exact C09_no_race es (lockOf (obj v) c) v hwf (conformsI_guarded hc hd)

/-! ## Non-vacuity -/

/-- the generated sample execution is well-formed and conforms to the generated table -/
example : WellFormed Generated.exampleExec := wf_of_isSome (by decide +kernel)
example : Conforms Generated.facts Generated.exampleExec := conforms_of_check (by decide +kernel)
example : (Generated.exampleExec.any fun e => match e with | .acc _ _ _ => true | _ => false) = true := by decide +kernel

/-- two instances of lock class 0 (instances 10 and 20) held exclusively at the same time by two threads:
    well-formed at instance level -/
example : WellFormed [.acq 1 10 true, .acq 2 20 true, .acc 1 100 true, .acc 2 200 true, .rel 2 20 true, .rel 1 10 true] :=
  wf_of_isSome (by decide)

/-- plain memory semantics does lose updates when the read-modify-write is split over two critical
    sections although every access holds the lock … -/
def exSplit : List Ev :=
  [.acq 1 0 true, .acc 1 7 false, .rel 1 0 true, .acq 2 0 true, .acc 2 7 false, .rel 2 0 true,
   .acq 1 0 true, .acc 1 7 true, .rel 1 0 true, .acq 2 0 true, .acc 2 7 true, .rel 2 0 true]
example : WellFormed exSplit := wf_of_isSome (by decide)
example : Guarded 0 7 exSplit := guarded_of_check (by decide)
example : (vrun 7 VS.init exSplit).mem = 1 ∧ writesTo 7 exSplit = 2 := by decide

/-- … and not when each update stays inside one section (hypotheses of the general theorem hold) -/
def exAtomic : List Ev :=
  [.acq 1 0 true, .acc 1 7 false, .acc 1 7 true, .rel 1 0 true, .acq 2 0 true, .acc 2 7 false, .acc 2 7 true, .rel 2 0 true]
example : (vrun 7 VS.init exAtomic).mem = 2 ∧ writesTo 7 exAtomic = 2 := by decide
example : 0 < Generated.counterVars.length := by decide +kernel


/-- two threads, a write each and a read, under lock 0 (one reader section): hypotheses hold -/
def exOk : List Ev :=
  [.acq 1 0 true, .acc 1 7 true, .rel 1 0 true, .acq 2 0 false, .acc 2 7 false, .rel 2 0 false,
   .acq 2 0 true, .acc 2 7 true, .rel 2 0 true]

example : WellFormed exOk := wf_of_isSome (by decide)
example : Guarded 0 7 exOk := guarded_of_check (by decide)
example : ¬ Race exOk 7 := C09_no_race exOk 0 7 (wf_of_isSome (by decide)) (guarded_of_check (by decide))

/-- the lock semantics really excludes: a second `Lock` while the lock is held is not an execution -/
example : ¬ WellFormed [.acq 1 0 true, .acq 2 0 true] := by
  rintro ⟨σ, h⟩; simp [run, step, St.init, upd] at h

/-- without the lock the model does exhibit a race … -/
example : Race [.acc 1 7 true, .acc 2 7 true] 7 := by
  refine ⟨0, 1, 1, 2, true, true, by omega, rfl, rfl, by omega, Or.inl rfl, ?_⟩
  intro h
  obtain ⟨a, b, ha, hb, hab⟩ := h.adjacent rfl
  simp only [List.getElem?_cons_zero, List.getElem?_cons_succ, Option.some.injEq] at ha hb
  subst ha hb
  rcases hab with h1 | ⟨t, l, m, h1⟩
  · simp [Ev.thread] at h1
  · cases h1

/-- … and an unguarded access is rejected by the executable guard check -/
example : guardedFrom 0 7 St.init [.acq 1 0 true, .acc 1 7 true, .rel 1 0 true, .acc 2 7 true] = false := by decide

/-- a lost update needs the discipline to be broken: plain memory semantics, two unlocked increments, result 1 -/
example : (crun false CS.init [.ld 1, .ld 2, .st 1, .st 2]).map (·.mem) = some 1 := by decide
example : increments [.ld 1, .ld 2, .st 1, .st 2] = 2 := by decide

/-- under the discipline the same two increments (any admitted interleaving) give 2, and the racy
    interleaving is not an execution -/
example : (crun true CS.init [.acqW 1, .ld 1, .st 1, .relW 1, .acqW 2, .ld 2, .st 2, .relW 2]).map (·.mem) = some 2 := by decide
example : (crun true CS.init [.ld 1, .ld 2, .st 1, .st 2]).isNone = true := by decide

/-- the generated table is not empty, every numbered variable occurs in it, and the checker does reject
    an undisciplined table -/
example : Generated.groups.length = Generated.numVars ∧ 0 < Generated.numVars ∧
    Generated.facts.length = Generated.numFacts ∧ 0 < Generated.numFacts := by decide +kernel
example : (Generated.groups.all fun g => !g.isEmpty) = true ∧ (Generated.facts.any fun f => f.write) = true := by decide +kernel
example : checkGroups 0 [[⟨0, true, 2, [], "a.go:1"⟩, ⟨0, false, 0, [(0, true)], "a.go:2"⟩]] = false := by decide
example : checkGroups 0 [[⟨0, true, 1, [(0, false)], "a.go:1"⟩, ⟨0, false, 0, [(0, false)], "a.go:2"⟩]] = false := by decide
example : checkGroups 0 [[⟨0, true, 1, [(3, true), (5, true)], "a.go:1"⟩, ⟨0, false, 0, [(5, false)], "a.go:2"⟩]] = true := by decide
example : checkVar [⟨0, true, 1, [(3, true), (5, true)], "a.go:1"⟩, ⟨1, true, 2, [], "b.go:1"⟩, ⟨0, false, 0, [(5, false)], "a.go:2"⟩] 0 = some 5 := by decide

end C09
