import OxyModel.Proofs.Locks.Sound
import OxyModel.Proofs.Locks.Counter
import OxyModel.Proofs.Locks.Check
import OxyModel.Proofs.Locks.Exec
import OxyModel.Generated.LockFacts

/-!
# C09 — data-race freedom of every middleware (PARTIAL by nature)

Property: "Every middleware may serve any number of requests concurrently, together with its runtime
administration and inspection calls, without data races: no unsynchronised conflicting access to shared
state occurs and no counter update is lost."

Full statement (not provable about a pure model, kept visible):
  `∀ middleware M, ∀ interleaving es of ServeHTTP / admin / inspection calls on one instance of M
     executed by the Go runtime:  ¬ Race es v  for every shared variable v,  and every counter of M
     ends with exactly the number of increments performed`.
What is proved here:
  * `C09_lockset_sound`, `C09_no_race`: in EVERY execution admitted by the RW-lock semantics (no bound
    on threads, locks, length), if every access to `v` happens under one fixed lock `ℓ` (exclusively
    for writes), then any two conflicting accesses by different threads are separated by a release of
    `ℓ` by the first thread and a later acquisition by the second, i.e. ordered by happens-before.
  * `C09_no_lost_update`: increments (load; store+1) performed under `ℓ:W` sum exactly, for every
    interleaving.
  * `C09_discipline`: the lock facts REGENERATED from the repository's sources on every run satisfy that
    discipline for every shared variable (kernel-evaluated Boolean checker + soundness lemma).
  * `C09_race_free_partial`: the three together, for every execution that conforms to the facts.
What is missing (hence partial): that the real executions of the Go program conform to the extracted
facts (the translator, `/verif/harness/locks`, is trusted for that; exercised by `-race` stress runs),
and Go's memory model for `sync` (assumed as the `step` semantics).
-/
namespace C09
open Locks

/-- the shared variables of the generated table -/
def sharedVars : List Nat := List.range Generated.groups.length

/-- **Lockset soundness.** In every well-formed execution in which each access to `v` holds the fixed
    lock `ℓ` (exclusively when writing), two conflicting accesses to `v` by different threads have, in
    between, a release of `ℓ` by the first thread followed by an acquisition of `ℓ` by the second, one
    of the two in exclusive mode (a synchronises-with edge of the Go memory model). -/
theorem C09_lockset_sound (es pre mid post : List Ev) (t1 t2 v ℓ : Nat) (w1 w2 : Bool)
    (hwf : WellFormed es) (hg : Guarded ℓ v es)
    (hes : es = pre ++ [Ev.acc t1 v w1] ++ mid ++ [Ev.acc t2 v w2] ++ post)
    (hne : t1 ≠ t2) (hconf : w1 = true ∨ w2 = true) :
    ∃ (a b c : List Ev) (m1 m2 : Bool),
      mid = a ++ [Ev.rel t1 ℓ m1] ++ b ++ [Ev.acq t2 ℓ m2] ++ c ∧ (m1 = true ∨ m2 = true) := by
  subst hes
  exact lockset_sound_split pre mid post t1 t2 v ℓ w1 w2 hwf hg hne hconf

/-- … hence no data race on `v` with respect to happens-before (program order ∪ unlock→later lock). -/
theorem C09_no_race (es : List Ev) (ℓ v : Nat) (hwf : WellFormed es) (hg : Guarded ℓ v es) : ¬ Race es v :=
  no_race es ℓ v hwf hg

/-- **No lost update.** Every interleaving of increments (load, then store of loaded+1) performed while
    holding the lock exclusively leaves the counter at exactly the number of increments. -/
theorem C09_no_lost_update (es : List CEv) (s : CS) (h : crun true CS.init es = some s) :
    s.mem = increments es := by
  have := (crun_count es CS.init s h cinv_init).2
  simpa [CS.init] using this

/-- **Discipline of the repository** (regenerated facts): every shared variable has one fixed lock that
    is held at every access site, exclusively at every write site. -/
theorem C09_discipline : ∀ v ∈ sharedVars, Disciplined Generated.facts v := by
  intro v _
  exact checkAll_sound (gs := Generated.groups) (by decide +kernel) v

/-- PARTIAL end-to-end statement: an execution that is admitted by the lock semantics and behaves as the
    generated facts say has no data race on any shared variable.  Missing for the full property: that the
    executions of the real program conform to the facts (trusted translator + `-race` runs). -/
theorem C09_race_free_partial (es : List Ev) (hwf : WellFormed es) (hc : Conforms Generated.facts es) :
    ∀ v ∈ sharedVars, ¬ Race es v := by
  intro v hv
  obtain ⟨ℓ, hd⟩ := C09_discipline v hv
  exact C09_no_race es ℓ v hwf (conforms_guarded hc hd)

/-! ## Non-vacuity -/

/-- two threads, a write each and a read, under lock 0 (one reader section): hypotheses hold -/
def exOk : List Ev :=
  [.acq 1 0 true, .acc 1 7 true, .rel 1 0 true, .acq 2 0 false, .acc 2 7 false, .rel 2 0 false,
   .acq 2 0 true, .acc 2 7 true, .rel 2 0 true]

example : WellFormed exOk := wf_of_isSome (by decide)
example : Guarded 0 7 exOk := guarded_of_check (by decide)
example : ¬ Race exOk 7 := C09_no_race exOk 0 7 (wf_of_isSome (by decide)) (guarded_of_check (by decide))

/-- the lock semantics really excludes: a second `Lock` while the lock is held is not an execution -/
example : ¬ WellFormed [.acq 1 0 true, .acq 2 0 true] := by
  rintro ⟨σ, h⟩; simp [run, step, St.init, upd] at h

/-- without the lock the model does exhibit a race … -/
example : Race [.acc 1 7 true, .acc 2 7 true] 7 := by
  refine ⟨0, 1, 1, 2, true, true, by omega, rfl, rfl, by omega, Or.inl rfl, ?_⟩
  intro h
  obtain ⟨a, b, ha, hb, hab⟩ := h.adjacent rfl
  simp only [List.getElem?_cons_zero, List.getElem?_cons_succ, Option.some.injEq] at ha hb
  subst ha hb
  rcases hab with h1 | ⟨t, l, m, h1⟩
  · simp [Ev.thread] at h1
  · cases h1

/-- … and an unguarded access is rejected by the executable guard check -/
example : guardedFrom 0 7 St.init [.acq 1 0 true, .acc 1 7 true, .rel 1 0 true, .acc 2 7 true] = false := by decide

/-- a lost update needs the discipline to be broken: plain memory semantics, two unlocked increments, result 1 -/
example : (crun false CS.init [.ld 1, .ld 2, .st 1, .st 2]).map (·.mem) = some 1 := by decide
example : increments [.ld 1, .ld 2, .st 1, .st 2] = 2 := by decide

/-- under the discipline the same two increments (any admitted interleaving) give 2, and the racy
    interleaving is not an execution -/
example : (crun true CS.init [.acqW 1, .ld 1, .st 1, .relW 1, .acqW 2, .ld 2, .st 2, .relW 2]).map (·.mem) = some 2 := by decide
example : (crun true CS.init [.ld 1, .ld 2, .st 1, .st 2]).isNone = true := by decide

/-- the generated table is not empty, every numbered variable occurs in it, and the checker does reject
    an undisciplined table -/
example : Generated.groups.length = Generated.numVars ∧ 0 < Generated.numVars ∧
    Generated.facts.length = Generated.numFacts ∧ 0 < Generated.numFacts := by decide +kernel
example : (Generated.groups.all fun g => !g.isEmpty) = true ∧ (Generated.facts.any fun f => f.write) = true := by decide +kernel
example : checkGroups 0 [[⟨0, true, [], "a.go:1"⟩, ⟨0, false, [(0, true)], "a.go:2"⟩]] = false := by decide
example : checkGroups 0 [[⟨0, true, [(0, false)], "a.go:1"⟩, ⟨0, false, [(0, false)], "a.go:2"⟩]] = false := by decide
example : checkGroups 0 [[⟨0, true, [(3, true), (5, true)], "a.go:1"⟩, ⟨0, false, [(5, false)], "a.go:2"⟩]] = true := by decide
example : checkVar [⟨0, true, [(3, true), (5, true)], "a.go:1"⟩, ⟨1, true, [], "b.go:1"⟩, ⟨0, false, [(5, false)], "a.go:2"⟩] 0 = some 5 := by decide

end C09
