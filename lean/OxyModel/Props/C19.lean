import OxyModel.Proofs.Source.Shapes

/-!
# C19 — source extractors identify the source exactly

Property theorems only (helper lemmas: `OxyModel/Proofs/Source`).  Model: `OxyModel/Model/Source.lean`
(`Source.extractClientIP`, `Source.splitHostPort` = `net.SplitHostPort`, `Source.newExtractor`, …).
Strings are byte sequences (`Str = List Char`, one `Char` per byte).  "Every host:port form an HTTP
server can produce" is `joinHostPort ip port` (`net.JoinHostPort`, what `TCPAddr.String()` calls)
for `ip` of one of the three textual shapes `isIPv4`, `isIPv6`, `isIPv6Zone` and a decimal `port`.
-/
namespace C19
open Source

/-- the token of an extraction result -/
def token : Except ExtractErr (Str × Int) → Option Str
  | .ok (t, _) => some t
  | .error _ => none

/-- **C19 (client.ip)**: for every peer address of IPv4, IPv6 or IPv6-with-zone shape and every
    decimal port, `client.ip` applied to the `RemoteAddr` the server forms from them yields exactly
    the address, with amount 1. -/
theorem C19_client_ip (ip port : Str) (hip : isPeerIP ip = true) (hport : isPort port = true) :
    extractClientIP (joinHostPort ip port) = .ok (ip, 1) :=
  extractClientIP_of_split (split_join ip port (isPeerIP_spec hip).2 (isPort_plain hport)) (isPeerIP_spec hip).1

/-- the same for *any* non-empty host text without brackets (host names, unusual zones) and any
    port text free of `:` `[` `]` — the precise domain on which `client.ip` inverts `JoinHostPort` -/
theorem C19_client_ip_general (ip port : Str) (hne : ip ≠ []) (hip : noBrackets ip) (hport : plain port) :
    extractClientIP (joinHostPort ip port) = .ok (ip, 1) :=
  extractClientIP_of_split (split_join ip port hip hport) hne

/-- **C19 (same token iff same address)**: two requests get the same token iff their peers have
    the same address; the ports play no role. -/
theorem C19_same_token_iff_same_address (ip₁ port₁ ip₂ port₂ : Str)
    (h₁ : isPeerIP ip₁ = true) (p₁ : isPort port₁ = true) (h₂ : isPeerIP ip₂ = true) (p₂ : isPort port₂ = true) :
    token (extractClientIP (joinHostPort ip₁ port₁)) = token (extractClientIP (joinHostPort ip₂ port₂)) ↔ ip₁ = ip₂ := by
  rw [C19_client_ip ip₁ port₁ h₁ p₁, C19_client_ip ip₂ port₂ h₂ p₂]
  simp [token]

/-- **C19 (request.host)**: `NewExtractor("request.host")` succeeds and the extractor yields the Host
    of every request as it is (also when empty), amount 1, never an error. -/
theorem C19_host (r : Req) :
    newExtractor "request.host".toList = .ok .host ∧ extract .host r = .ok (r.host, 1) :=
  ⟨(newExtractor_ok_iff _ _).2 (Or.inr (Or.inl ⟨rfl, rfl⟩)), rfl⟩

/-- **C19 (request.host reads the Host only)**: whatever `req.URL.Host` is — the backend address a load
    balancer in front has re-pointed the URL at, or the authority of an absolute-form request line —
    the token is the request's Host. -/
theorem C19_host_ignores_url (r : Req) (u : Str) :
    extract .host { r with urlHost := u } = .ok (r.host, 1) := rfl

/-- **C19 (request.header.X)**: for every non-empty header name, `NewExtractor("request.header."+name)`
    succeeds and the extractor yields `req.Header.Get(name)` — the first value stored under the
    canonical form of `name`, the empty string when there is none — amount 1, never an error. -/
theorem C19_header (name : Str) (hne : name ≠ []) (r : Req) :
    newExtractor (headerPrefix ++ name) = .ok (.header name) ∧
    extract (.header name) r = .ok (headerGet r.headers name, 1) :=
  ⟨newExtractor_header name hne, rfl⟩

/-- what `Header.Get` is on the header lines: the value of the first line whose canonical name equals
    the canonical form of the configured name … -/
theorem C19_header_value (pre post : List (Str × Str)) (n v name : Str)
    (hn : canonKey n = canonKey name) (hpre : ∀ q ∈ pre, canonKey q.1 ≠ canonKey name) (ra host uh : Str) :
    extract (.header name) ⟨ra, host, pre ++ (n, v) :: post, uh⟩ = .ok (v, 1) := by
  simp [extract, headerGet_hit pre post n v name hn hpre]

/-- … and the empty token when no line has that name -/
theorem C19_header_absent (hs : List (Str × Str)) (name : Str)
    (h : ∀ q ∈ hs, canonKey q.1 ≠ canonKey name) (ra host uh : Str) :
    extract (.header name) ⟨ra, host, hs, uh⟩ = .ok ([], 1) := by
  simp [extract, headerGet_miss hs name h]

/-- **C19 (one unit)**: every extractor counts a request as exactly one unit. -/
theorem C19_amount_one (k : Kind) (r : Req) (tok : Str) (a : Int) (h : extract k r = .ok (tok, a)) : a = 1 := by
  cases k with
  | clientIP =>
    simp only [extract] at h
    cases hs : splitHostPort r.remoteAddr with
    | error e =>
      by_cases hne : r.remoteAddr = []
      · rw [hne] at h; have : extractClientIP [] = .error .noClientIP := rfl
        rw [this] at h; cases h
      · rw [extractClientIP_of_split_err hs hne] at h; simp at h; exact h.2.symm
    | ok hp =>
      obtain ⟨x, p⟩ := hp
      by_cases hne : x = []
      · simp [extractClientIP, hs, hne] at h
      · rw [extractClientIP_of_split hs hne] at h; simp at h; exact h.2.symm
  | host => simp [extract, extractHost] at h; exact h.2.symm
  | header n => simp [extract] at h; exact h.2.symm

/-- **C19 (unsupported variables are refused when the extractor is built)**: `NewExtractor` succeeds
    exactly on `client.ip`, `request.host` and `request.header.<non-empty name>`, and then returns the
    corresponding extractor; every other variable (including `request.header.` alone) is an error. -/
theorem C19_unsupported_refused (v : Str) :
    (∀ k, newExtractor v = .ok k ↔
      (v = "client.ip".toList ∧ k = .clientIP) ∨ (v = "request.host".toList ∧ k = .host) ∨
      (∃ name, name ≠ [] ∧ v = headerPrefix ++ name ∧ k = .header name)) ∧
    ((∃ e, newExtractor v = .error e) ↔
      ¬ (v = "client.ip".toList ∨ v = "request.host".toList ∨ ∃ name, name ≠ [] ∧ v = headerPrefix ++ name)) := by
  refine ⟨fun k => newExtractor_ok_iff v k, ?_⟩
  constructor
  · rintro ⟨e, he⟩ hv
    rcases hv with rfl | rfl | ⟨name, hne, rfl⟩
    · have := (newExtractor_ok_iff "client.ip".toList .clientIP).2 (Or.inl ⟨rfl, rfl⟩)
      rw [this] at he; cases he
    · have := (newExtractor_ok_iff "request.host".toList .host).2 (Or.inr (Or.inl ⟨rfl, rfl⟩))
      rw [this] at he; cases he
    · rw [newExtractor_header name hne] at he; cases he
  · intro hv
    cases hn : newExtractor v with
    | error e => exact ⟨e, rfl⟩
    | ok k =>
      exfalso; apply hv
      rcases (newExtractor_ok_iff v k).1 hn with ⟨h, _⟩ | ⟨h, _⟩ | ⟨name, hne, h, _⟩
      · exact Or.inl h
      · exact Or.inr (Or.inl h)
      · exact Or.inr (Or.inr ⟨name, hne, h⟩)

/-- **C19 (which addresses `SplitHostPort` accepts)**: exactly `h:p` with `h`, `p` free of `:` `[` `]`
    and `[h]:p` with `h` free of brackets and `p` free of `:` `[` `]`; every other `RemoteAddr` (no
    port, unbalanced or misplaced brackets, extra colons, empty) is a split error. -/
theorem C19_split_exact (ra h p : Str) :
    splitHostPort ra = .ok (h, p) ↔
      (ra = h ++ ':' :: p ∧ plain h ∧ plain p) ∨ (ra = '[' :: (h ++ ']' :: ':' :: p) ∧ noBrackets h ∧ plain p) :=
  split_ok_iff ra h p

/-- **C19 (malformed addresses)**: what the current `extractClientIP` does outside the well-formed
    domain.  (1) It returns an error exactly for the empty `RemoteAddr` and for `:port` / `[]:port`
    (a well-formed split with an empty host).  (2) Every non-empty `RemoteAddr` that `SplitHostPort`
    rejects (see `C19_split_exact`) is passed through *as is* as the token, amount 1 — it is not an
    error.  (3) Every accepted split with a non-empty host yields that host. -/
theorem C19_malformed_is_error (ra : Str) :
    (extractClientIP ra = .error .noClientIP ↔
      ra = [] ∨ ∃ p, plain p ∧ (ra = ':' :: p ∨ ra = '[' :: ']' :: ':' :: p)) ∧
    (∀ e, splitHostPort ra = .error e → ra ≠ [] → extractClientIP ra = .ok (ra, 1)) ∧
    (∀ h p, splitHostPort ra = .ok (h, p) → h ≠ [] → extractClientIP ra = .ok (h, 1)) := by
  refine ⟨?_, fun e hs hne => extractClientIP_of_split_err hs hne, fun h p hs hne => extractClientIP_of_split hs hne⟩
  constructor
  · intro herr
    cases hs : splitHostPort ra with
    | error e =>
      by_cases hne : ra = []
      · exact Or.inl hne
      · rw [extractClientIP_of_split_err hs hne] at herr; cases herr
    | ok hp =>
      obtain ⟨h, p⟩ := hp
      by_cases hne : h = []
      · subst hne
        right
        rcases split_ok_spec hs with ⟨rfl, _, hp⟩ | ⟨rfl, _, hp⟩
        · exact ⟨p, hp, Or.inl rfl⟩
        · exact ⟨p, hp, Or.inr rfl⟩
      · rw [extractClientIP_of_split hs hne] at herr; cases herr
  · rintro (rfl | ⟨p, hp, rfl | rfl⟩)
    · rfl
    · have := split_plain [] p ⟨by simp, by simp, by simp⟩ hp
      simp at this
      simp [extractClientIP, this]
    · have := split_bracket [] p ⟨by simp, by simp⟩ hp
      simp at this
      simp [extractClientIP, this]

/-! ### non-vacuity, and what the three shapes look like -/

example : isPeerIP "192.168.0.17".toList = true ∧ isPort "54321".toList = true := by decide
example : isPeerIP "2001:db8::1".toList = true ∧ isPeerIP "::ffff:10.0.0.1".toList = true := by decide
example : isPeerIP "fe80::1%eth0".toList = true ∧ isIPv6Zone "fe80::1%eth0".toList = true := by decide
example : joinHostPort "fe80::1%eth0".toList "80".toList = "[fe80::1%eth0]:80".toList := by decide
example : extractClientIP "[fe80::1%eth0]:80".toList = .ok ("fe80::1%eth0".toList, 1) := by rfl
example : extractClientIP "[::1]:80".toList = .ok ("::1".toList, 1) := by rfl   -- the repaired defect (was "[")
example : extractClientIP "10.0.0.1:80".toList = .ok ("10.0.0.1".toList, 1) := by rfl
-- malformed: passed through as is …
example : extractClientIP "10.0.0.1".toList = .ok ("10.0.0.1".toList, 1) := by rfl          -- no port
example : extractClientIP "::1".toList = .ok ("::1".toList, 1) := by rfl                    -- extra colons
example : extractClientIP "[::1".toList = .ok ("[::1".toList, 1) := by rfl                  -- unbalanced
example : extractClientIP "[::1]:80:90".toList = .ok ("[::1]:80:90".toList, 1) := by rfl
example : splitHostPort "[::1]:80:90".toList = .error .tooManyColons := by rfl
-- … or refused
example : extractClientIP [] = .error .noClientIP := by rfl
example : extractClientIP ":".toList = .error .noClientIP := by rfl
example : extractClientIP "[]:80".toList = .error .noClientIP := by rfl
example : newExtractor "request.header.".toList = .error .wrongHeader := by rfl
example : newExtractor "client.IP".toList = .error .unsupported := by rfl
example : extract .host ⟨"10.0.0.1:5".toList, "tenant-a.example".toList, [], "10.1.1.1:8080".toList⟩ = .ok ("tenant-a.example".toList, 1) := by rfl
example : canonKey "x-fOO-bar".toList = "X-Foo-Bar".toList := by rfl
example : extract (.header "x-foo".toList) ⟨[], [], [("X-Other".toList, "a".toList), ("X-FOO".toList, "b".toList), ("x-foo".toList, "c".toList)], []⟩
    = .ok ("b".toList, 1) := by rfl

end C19
