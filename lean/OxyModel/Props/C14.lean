import OxyModel.Proofs.RateLimit.Limiter
import OxyModel.Proofs.RateLimit.PerRequest
import OxyModel.Proofs.RateLimit.HeapLimiter
import OxyModel.Proofs.RateLimit.Refine
import OxyModel.Proofs.ConnLimit.NonInterference

/-!
# C14 — limiter decisions for one source are independent of all other sources

Rate limiter: `RL.Limiter.serve` (model of `TokenLimiter.consumeRates`) over `TTL.Map` (model of
`collections.TTLMap`).  `decisionsFor s l reqs` are the responses to the requests of `s` inside the
interleaved history `reqs`; `l.run (reqs.filter (·.src = s))` is what `s` gets alone.  Every request
carries the entry the TTL map's heap hands out should room have to be made (`victim`); the theorems hold
for every such choice.  Connection limiter: `ConnLimit` (C04's model).
-/
namespace C14
open RL TTL

/-- **Non-interference (rate limiter), general form.**  From any limiter state, for every interleaved
    history and every choice of eviction victims: as long as `s` itself is never the entry that is
    forgotten to make room for *another* source, the decisions for `s` are exactly those it gets when
    its requests are issued alone.  (No assumption on capacity, rates, timing or legality of victims.) -/
theorem C14_evict_others_unchanged (l : Limiter) (reqs : List Req) (s : String) (hsp : l.spares s reqs) :
    l.decisionsFor s reqs = l.run (reqs.filter (fun r => r.src = s)) := by
  rw [decisions_eq_entryRun s reqs l hsp, run_own_eq_entryRun]

/-- **Non-interference within capacity.**  If the sources already tracked together with the sources of
    the history are at most `capacity` many, nothing is ever evicted and every source's decisions
    equal those of its solo run — for every interleaving. -/
theorem C14_rate_noninterference (l : Limiter) (hnd : l.sets.keys.Nodup) (reqs : List Req)
    (hcap : (l.sets.keys ++ reqs.map (·.src)).dedup.length ≤ l.sets.capacity) (s : String) :
    l.decisionsFor s reqs = l.run (reqs.filter (fun r => r.src = s)) := by
  apply C14_evict_others_unchanged
  apply spares_of_noEvict
  apply noEvict_of_capacity (l.sets.keys ++ reqs.map (·.src)) reqs l hnd
  · exact fun x hx => List.mem_append_left _ hx
  · exact fun r hr => List.mem_append_right _ (List.mem_map_of_mem hr)
  · exact hcap

/-- the same for a freshly constructed limiter (`ratelimit.New`) -/
theorem C14_rate_noninterference_new (rates : List Rate) (capacity : Nat) (reqs : List Req)
    (hcap : (reqs.map (·.src)).dedup.length ≤ (Limiter.new rates capacity).sets.capacity) (s : String) :
    (Limiter.new rates capacity).decisionsFor s reqs = (Limiter.new rates capacity).run (reqs.filter (fun r => r.src = s)) := by
  apply C14_rate_noninterference
  · exact List.nodup_nil
  · simpa [Limiter.new, TTL.empty, Map.keys] using hcap

/-- within capacity no request evicts anything -/
theorem C14_within_capacity_no_eviction (l : Limiter) (hnd : l.sets.keys.Nodup) (reqs : List Req)
    (hcap : (l.sets.keys ++ reqs.map (·.src)).dedup.length ≤ l.sets.capacity) : l.noEvict reqs :=
  noEvict_of_capacity (l.sets.keys ++ reqs.map (·.src)) reqs l hnd
    (fun x hx => List.mem_append_left _ hx) (fun r hr => List.mem_append_right _ (List.mem_map_of_mem hr)) hcap

/-! ### per-request rate sets (`ExtractRates`)

Every request carries the rate set its extractor yields (`[]` = the defaults); on a tracked source `serve`
runs `TokenBucketSet.Update` with it.  Same two theorems, for every assignment of rate sets to requests. -/

/-- general form with per-request rate sets -/
theorem C14_evict_others_unchanged_rates (l : Limiter) (reqs : List ReqR) (s : String) (hsp : l.sparesR s reqs) :
    l.decisionsForR s reqs = l.runR (reqs.filter (fun r => r.src = s)) := by
  rw [decisions_eq_entryRunR s reqs l hsp, runR_own_eq_entryRunR]

/-- within capacity, with per-request rate sets: whatever rate sets the requests of the other sources
    (and of `s` itself) carry, the decisions for `s` are those of its own requests issued alone -/
theorem C14_rate_noninterference_rates (l : Limiter) (hnd : l.sets.keys.Nodup) (reqs : List ReqR)
    (hcap : (l.sets.keys ++ reqs.map (·.src)).dedup.length ≤ l.sets.capacity) (s : String) :
    l.decisionsForR s reqs = l.runR (reqs.filter (fun r => r.src = s)) := by
  apply C14_evict_others_unchanged_rates
  apply sparesR_of_noEvictR
  apply noEvictR_of_capacity (l.sets.keys ++ reqs.map (·.src)) reqs l hnd
  · exact fun x hx => List.mem_append_left _ hx
  · exact fun r hr => List.mem_append_right _ (List.mem_map_of_mem hr)
  · exact hcap

/-- Relational form (the heap left abstract): when a request of an untracked source `src` finds the map
    full, then for every `victim` that satisfies `isMin` (tracked, no tracked entry expires earlier — this is a
    *hypothesis* here, discharged for the modelled heap in `C14_evict_min_only`): it is forgotten, so its next
    request starts from a new, full bucket set; the entry (bucket set *and* expiry) of every other source is exactly
    what it was; and `src` is tracked now.  Covers every way of breaking ties among equal expiries. -/
theorem C14_evict_min_only_rel (l : Limiter) (now : Nat) (src : String) (amount : Nat) (rr : List Rate) (victim : String)
    (hev : l.evictsAt now src = true) (hleg : (l.sets.get src now).1.isMin victim = true) :
    (∃ e, (l.sets.get src now).1.find? victim = some e ∧
        ∀ e' ∈ (l.sets.get src now).1.entries, e.expiry ≤ e'.expiry) ∧
    victim ≠ src ∧
    (l.serve now src amount rr victim).1.sets.find? victim = none ∧
    (∀ now' rates, (l.serve now src amount rr victim).1.current now' victim rates = BucketSet.new rates now') ∧
    (∀ s, s ≠ src → s ≠ victim → (l.serve now src amount rr victim).1.sets.find? s = l.sets.find? s) ∧
    (∃ e, (l.serve now src amount rr victim).1.sets.find? src = some e) := by
  have hnone : (l.sets.get src now).1.find? src = none := by
    unfold Limiter.evictsAt Map.evicts at hev
    simp only [Bool.and_eq_true, Option.isNone_iff_eq_none] at hev
    exact hev.1.1
  unfold Map.isMin at hleg
  cases hfv : (l.sets.get src now).1.find? victim with
  | none => rw [hfv] at hleg; simp at hleg
  | some e =>
    rw [hfv] at hleg
    simp only [List.all_eq_true, decide_eq_true_eq] at hleg
    have hne : victim ≠ src := by
      intro h; rw [h, hnone] at hfv; simp at hfv
    have hforgot : (l.serve now src amount rr victim).1.sets.find? victim = none := by
      unfold Limiter.serve
      simp only
      exact set_find?_victim _ _ _ _ _ _ hnone hev hne
    refine ⟨⟨e, rfl, hleg⟩, hne, hforgot, ?_, ?_, ?_⟩
    · intro now' rates
      rw [current_eq, hforgot]
      rfl
    · intro s hs hsv
      exact serve_find_other l now src s amount rr victim hs (fun _ => fun h => hsv h.symm)
    · exact ⟨_, serve_find_self l now src amount rr victim⟩

/-! ### the expiry heap

`HLimiter` = the limiter whose TTL map carries the `container/heap` of `(key, expiry)` exactly as
`ttlmap.go` / `priority_queue.go` drive it (`Model/Heap.lean`: `up`, `down`, `Push`, `Pop`, `Remove`; `Update` =
`Remove` + `Push`).  The victim is the heap top, so nothing is assumed about it any more. -/

/-- map and heap agree (same `(key, expiry)` pairs, distinct keys, heap order) in every reachable state, for every
    history of `(time, source, amount, rates)` requests -/
theorem C14_heap_consistent (rates : List Rate) (capacity : Nat) (reqs : List (Nat × String × Nat × List Rate)) :
    HCons ((HLimiter.new rates capacity).after reqs) :=
  hcons_after reqs _ (hcons_new rates capacity)

/-- the heap operations keep the heap order and `Peek`/`Pop` yield a minimal element (`container/heap`) -/
theorem C14_heap_pop_isMin (h : Heap.T) (hinv : Heap.Inv h h.length) (x : Heap.Item) (hx : Heap.top h = some x) :
    (∀ y ∈ h, x.2 ≤ y.2) ∧ (x :: Heap.pop h).Perm h ∧ Heap.Inv (Heap.pop h) (Heap.pop h).length ∧
    (∀ y, Heap.Inv (Heap.push h y) (Heap.push h y).length) ∧
    (∀ k p, Heap.Inv (Heap.update h k p) (Heap.update h k p).length) ∧
    (∀ k, Heap.Inv (Heap.removeKey h k) (Heap.removeKey h k).length) := by
  refine ⟨Heap.top_le_all h hinv x hx, Heap.pop_perm h x hx, ?_, ?_, fun k p => Heap.update_inv h k p hinv,
    fun k => Heap.removeKey_inv h k hinv⟩
  · rw [Heap.pop_length]; exact Heap.pop_inv h hinv
  · intro y; rw [Heap.push_length]; exact Heap.push_inv h y hinv

/-- **Over capacity: only the entry nearest to expiry is forgotten.**  In every state in which map and heap
    agree (`C14_heap_consistent`: every reachable state), when a request of an untracked source `src` finds the map
    full, the entry `v` the modelled heap hands out was tracked and *no tracked entry expires earlier*; `v ≠ src`;
    `v` is forgotten, so its next request starts from a new, full bucket set; the entry (bucket set and expiry) of
    every other source is exactly what it was; `src` is tracked now. -/
theorem C14_evict_min_only (hl : HLimiter) (hc : HCons hl) (now : Nat) (src : String) (amount : Nat) (rr : List Rate)
    (hev : hl.base.evictsAt now src = true) :
    (∃ e, (hl.base.sets.get src now).1.find? (hl.victimAt now src) = some e ∧
        ∀ e' ∈ (hl.base.sets.get src now).1.entries, e.expiry ≤ e'.expiry) ∧
    hl.victimAt now src ≠ src ∧
    (hl.serve now src amount rr).1.base.sets.find? (hl.victimAt now src) = none ∧
    (∀ now' rates, (hl.serve now src amount rr).1.base.current now' (hl.victimAt now src) rates = BucketSet.new rates now') ∧
    (∀ s, s ≠ src → s ≠ hl.victimAt now src → (hl.serve now src amount rr).1.base.sets.find? s = hl.base.sets.find? s) ∧
    (∃ e, (hl.serve now src amount rr).1.base.sets.find? src = some e) :=
  C14_evict_min_only_rel hl.base now src amount rr (hl.victimAt now src) hev (victimAt_isMin hl hc now src hev)

/-- **A forgotten source starts afresh** (history level): if `s` is the victim of this request, then along any
    further history in which it is not evicted again its decisions are exactly those of its own later requests
    on a brand-new limiter.  (Together with `C14_evict_others_unchanged` for the stretches in between this splits
    every history at the evictions of `s`.) -/
theorem C14_evicted_restarts (l : Limiter) (now : Nat) (src : String) (amount : Nat) (rr : List Rate) (s : String)
    (hev : l.evictsAt now src = true) (hleg : (l.sets.get src now).1.isMin s = true)
    (rest : List Req) (hsp : (l.serve now src amount rr s).1.spares s rest) (capacity : Nat) :
    (l.serve now src amount rr s).1.decisionsFor s rest
      = (Limiter.new l.defaults capacity).run (rest.filter (fun r => r.src = s)) := by
  have hgone := (C14_evict_min_only_rel l now src amount rr s hev hleg).2.2.1
  rw [decisions_eq_entryRun s rest _ hsp, run_own_eq_entryRun, hgone, serve_defaults]
  have : (Limiter.new l.defaults capacity).sets.find? s = none := by
    simp [Limiter.new, TTL.empty, Map.find?]
  rw [this]
  rfl

/-- **Connection limiter.**  For every interleaving of starts and finishes of any number of sources,
    the decisions taken for `src` equal those of its own sub-history run alone (proved with C04's
    model in `Proofs/ConnLimit/NonInterference.lean`). -/
theorem C14_conn_noninterference (mx : Int) (src : String) (h : List ConnLimit.Event) :
    ConnLimit.decisionsFor src (ConnLimit.Sys.init mx) h
      = ConnLimit.outs (ConnLimit.Sys.init mx) (ConnLimit.project src (ConnLimit.Sys.init mx) h) :=
  ConnLimit.conn_noninterference mx src h

/-! ### non-vacuity -/
section NonVacuity
/-- a limiter with room for two sources that tracks `a` (expiry 11 s) and `b` (expiry 13 s) -/
def l2 : Limiter :=
  (((Limiter.new [⟨1000000000, 1, 2⟩] 2).serve 0 "a" 2 [] "").1.serve 2000000000 "b" 1 [] "").1

-- a third source makes the map evict; `a` is the legal victim, `b` is not
example : l2.evictsAt 3000000000 "c" = true ∧ (l2.sets.get "c" 3000000000).1.isMin "a" = true
    ∧ (l2.sets.get "c" 3000000000).1.isMin "b" = false := by decide
-- `b` is spared by a history in which `c` arrives (evicting `a`) and `a` comes back (evicting `b`? no: `c` expires later)
example : l2.spares "b" [⟨3000000000, "c", 1, "a"⟩, ⟨3000000000, "b", 1, ""⟩] := by
  unfold Limiter.spares Limiter.spares Limiter.spares; decide
-- within capacity: two sources, capacity two
example : ((Limiter.new [⟨1000000000, 1, 2⟩] 2).sets.keys ++
    ([⟨0, "a", 1, ""⟩, ⟨1, "b", 1, ""⟩, ⟨2, "a", 2, ""⟩] : List Req).map (·.src)).dedup.length
    ≤ (Limiter.new [⟨1000000000, 1, 2⟩] 2).sets.capacity := by decide
-- the interleaved decisions are not trivial: `a` is admitted, then refused
example : (Limiter.new [⟨1000000000, 1, 2⟩] 2).decisionsFor "a" [⟨0, "a", 1, ""⟩, ⟨1, "b", 1, ""⟩, ⟨2, "a", 2, ""⟩]
    = [.ok, .tooMany 1000000000] := by decide
-- per-request rate sets: `a` starts on 1/s burst 1, `b` uses 1/s burst 2, then `a` is switched to it and re-synced (200)
example : (Limiter.new [⟨1000000000, 1, 1⟩] 2).decisionsForR "a"
    [⟨0, "a", 1, [], ""⟩, ⟨0, "a", 1, [], ""⟩, ⟨0, "b", 1, [⟨2000000000, 1, 2⟩], ""⟩, ⟨0, "a", 1, [⟨2000000000, 1, 2⟩], ""⟩]
    = [.ok, .tooMany 1000000000, .ok] := by decide
-- a reachable state of the limiter-with-heap in which a third source makes the map evict: map and heap agree there
example : HCons ((HLimiter.new [⟨1000000000, 1, 2⟩] 2).after [(0, "a", 2, []), (2000000000, "b", 1, [])]) ∧
    ((HLimiter.new [⟨1000000000, 1, 2⟩] 2).after [(0, "a", 2, []), (2000000000, "b", 1, [])]).base.evictsAt 3000000000 "c" = true :=
  ⟨C14_heap_consistent _ _ _, by decide⟩
end NonVacuity

end C14
