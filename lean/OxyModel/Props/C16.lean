import OxyModel.Proofs.Forward.Pipeline
/-!
# C16 — the forwarder relays responses faithfully and maps failures to gateway errors  (*partial*)

What is proved is about `Fwd.relay` (status / headers / body handed to the client after a successful round
trip), `Fwd.classify` (`utils.StdHandler.ServeHTTP`: error value → status) and `Fwd.stateListener`
(`forward.StateListener.ServeHTTP` over a model of Go's call / defer / panic).

**Not verified** (stdlib behaviour, exercised on real sockets by the correspondence run only): that the body
bytes are streamed unchanged for every size / chunking / flush pattern (`copyResponse`), that the proxy never
hangs or crashes, and *which* error value `http.Transport.RoundTrip` returns for which socket failure — the
table `Fwd.FailMode.kind` is an assumption, documented there and checked against the implementation on every
run. Hence the claim is labelled partial.
-/
namespace C16
open Fwd

/-- **C16, error → status, exhaustive.** `classify` is total with values in {502, 504, 499, 500}, and decides
exactly by the table of the property statement, in the order the Go code tests: a `net.Error` is 504 if it is a
timeout and 502 otherwise (whatever else it is); otherwise EOF is 502; otherwise cancellation is 499; otherwise 500. -/
theorem C16_classify_total (e : ErrInfo) :
    (classify e = 502 ∨ classify e = 504 ∨ classify e = 499 ∨ classify e = 500) ∧
    (e.isNetError = true → e.timeout = true → classify e = 504) ∧
    (e.isNetError = true → e.timeout = false → classify e = 502) ∧
    (e.isNetError = false → e.isEOF = true → classify e = 502) ∧
    (e.isNetError = false → e.isEOF = false → e.isCanceled = true → classify e = 499) ∧
    (e.isNetError = false → e.isEOF = false → e.isCanceled = false → classify e = 500) := by
  obtain ⟨a, b, c, d⟩ := e
  cases a <;> cases b <;> cases c <;> cases d <;> simp [classify]

/-- **C16, the statement's table over the kinds of failure**: backend unreachable or failing before it responds
(a non-timeout network error, or EOF) → 502; response timeout → 504; client gone → 499; anything else → 500. -/
theorem C16_classify_kinds (k : ErrKind) :
    classify k.info = match k with
      | .netTimeout => 504 | .netOther => 502 | .eof => 502 | .canceled => 499 | .other => 500 := by
  cases k <;> rfl

/-- the same through the assumed failure-mode table (`FailMode.kind`): refused / reset before the head / closed
before the head → 502, header timeout → 504, client cancellation → 499, malformed response → 500 -/
theorem C16_failure_modes (m : FailMode) :
    classify m.kind.info = match m with
      | .refused => 502 | .resetBefore => 502 | .closeBefore => 502
      | .stall => 504 | .clientCancel => 499 | .garbage => 500 := by
  cases m <;> rfl

/-- **C16, relay.** Content is in the two header clauses: every end-to-end header reaches the client with all its
values in order, and none of the stdlib's hop-by-hop headers does. The status and body clauses only record that
the model passes the status code and the (abstract) body descriptor through untouched — `relay` is a record
update; that the *streamed bytes* are identical for every size and chunking is stdlib behaviour: assumed,
exercised by the correspondence run (digests), not proved. -/
theorem C16_relay_identity (b : Resp) :
    (relay b).status = b.status ∧ (relay b).body = b.body ∧
    (∀ k, k ∉ hopHeaders → k ∉ named b.header → (relay b).header.lookup k = b.header.lookup k) ∧
    (∀ k, k ∈ hopHeaders → has (relay b).header k = false) := by
  refine ⟨by simp [relay], by simp [relay], ?_, ?_⟩
  · intro k h1 h2
    have hc : k ≠ Connection := fun e => h1 (by simp [hopHeaders, e, Connection])
    simp only [relay, transportResp, lookup_removeHopByHop]
    split
    · have : named (del b.header Connection) = [] := by simp [named, vals_del, tokens]
      simp [h1, this, lookup_del, hc]
    · simp [h1, h2]
  · intro k hk
    simp only [relay, has, lookup_removeHopByHop]; simp [hk]

/-- **C16, connection-state notifications are paired**: whatever the wrapped handler does — return, or panic
with any value (`http.ErrAbortHandler` when forwarding is aborted midway) — the listener sees exactly
`connected` then `disconnected`, and the handler's outcome is passed on unchanged (a panic keeps propagating to
the server, which recovers it). -/
theorem C16_listener_paired (o : Outcome) :
    (stateListener o).1 = [.connected, .disconnected] ∧ (stateListener o).2 = o := by
  cases o <;> simp [stateListener, stateListenerBody, execBody]

/-- **C16, failure after the response head** (reset after the head, abort during body copy). The backend
delivers `sent < bodyLen` body bytes. Then: the head the client was already sent is the backend's (status, end-to-end
headers — `relay b`), the transfer is not completed, the handler ends by panicking (`http.ErrAbortHandler`, which the
server recovers) — and the state listener still reports exactly `connected, disconnected`, passing the panic on. -/
theorem C16_abort_after_head (b : Resp) (bodyLen sent : Nat) (h : sent < bodyLen) :
    (relayOutcome b bodyLen (some sent)).1 = relay b ∧ (relayOutcome b bodyLen (some sent)).1.status = b.status ∧
    (relayOutcome b bodyLen (some sent)).2.1 = false ∧
    (∃ v, (relayOutcome b bodyLen (some sent)).2.2 = .panic v) ∧
    (stateListener (relayOutcome b bodyLen (some sent)).2.2).1 = [.connected, .disconnected] ∧
    (stateListener (relayOutcome b bodyLen (some sent)).2.2).2 = (relayOutcome b bodyLen (some sent)).2.2 := by
  have e : relayOutcome b bodyLen (some sent) = (relay b, false, .panic "net/http: abort Handler") := by
    simp [relayOutcome, h]
  rw [e]
  exact ⟨rfl, by simp [relay], rfl, ⟨_, rfl⟩, (C16_listener_paired _).1, (C16_listener_paired _).2⟩

/-- and a complete transfer ends with a normal return -/
theorem C16_complete_transfer (b : Resp) (bodyLen : Nat) :
    relayOutcome b bodyLen none = (relay b, true, .ret) ∧
    (∀ sent, bodyLen ≤ sent → relayOutcome b bodyLen (some sent) = (relay b, true, .ret)) := by
  refine ⟨rfl, fun sent hs => ?_⟩
  simp [relayOutcome, Nat.not_lt.mpr hs]

/-- over any sequence of requests: every `connected` is followed by exactly one `disconnected`. (Sequential
composition. For concurrent requests — the `presp` op — pairing *per request* is `C16_listener_paired` applied to
each call: `ServeHTTP` shares no state between calls; no interleaving semantics is modelled, the driver's expected
`k` connected / `k` disconnected is this theorem on `k` outcomes.) -/
theorem C16_listener_sequence (os : List Outcome) :
    os.flatMap (fun o => (stateListener o).1) = (List.replicate os.length [Event.connected, Event.disconnected]).flatten := by
  induction os with
  | nil => rfl
  | cons o t ih => simp [List.flatMap_cons, (C16_listener_paired o).1, ih, List.replicate_succ]

/-! non-vacuity and sensitivity -/

/-- the model is not paired by construction: the body before commit f2f1ab2 loses `disconnected` on a panic -/
example : execBody (.panic "net/http: abort Handler") stateListenerBodyOld [] = ([.connected], .panic "net/http: abort Handler") := by
  decide
example : execBody .ret stateListenerBodyOld [] = ([.connected, .disconnected], .ret) := by decide
/-- precedence matters: an error that is both a `net.Error` timeout and EOF-like is 504, a cancelled one that is also a net error is 502 -/
example : classify ⟨true, true, true, true⟩ = 504 ∧ classify ⟨true, false, false, true⟩ = 502 := by decide
example : (relay { status := 404, header := [("Connection", ["X-Hop"]), ("X-Hop", ["1"]), ("Keep-Alive", ["5"]), ("X-Keep", ["a", "b"])],
                   body := "7:abc" }) = { status := 404, header := [("X-Keep", ["a", "b"])], body := "7:abc" } := by
  decide +kernel

end C16
