import OxyModel.Proofs.RateLimit.SetProps
import OxyModel.Proofs.RateLimit.Refine

/-!
# C03 — a source is never admitted faster than its token-bucket rate allows

Model: `RL.Bucket` / `RL.consumeSet` / `RL.Limiter.serve` (`Model/RateLimit.lean`) over `TTL.Map`
(`Model/TTLMap.lean`).  `tpt = max 1 (period / average)` is the code's integer quantum; "period/average" in
the statement is read as this quantum.

* `C03_bucket_window`, `C03_set_window`: no hypothesis beyond non-decreasing time stamps and a well-formed
  start state; they hold for every history, every sub-interval, every mix of admitted / refused requests.
* `C03_limiter_refines_set`, `C03_limiter_window`: the statement's own conditions — distinct sources within
  the capacity, and `RefillWithinTTL`: every burst refills within the time an idle entry is remembered.
  With the TTL refreshed on every access an entry last used at `t` is forgotten only by an access later
  than `t + 10·⌊maxPeriod/1s⌋ s`; the hypothesis is `burst·tpt ≤ 10·⌊maxPeriod/1s⌋ s` for every rate.
  It cannot be dropped (`C03_hypothesis_needed`), and it fails for every sub-second `maxPeriod`
  (`⌊maxPeriod/1s⌋ = 0`: such an entry is forgotten at the next wall-clock second, `C03_subsecond_forgets`).
-/
namespace C03
open RL TTL

/-- **Single bucket.**  Every history `ops` of `(time, amount, rolled back by the set?)` with
    non-decreasing times, from every well-formed bucket, every `i ≤ j`: the amounts that left in
    `ops[i..j]` are at most `burst + (t_j − t_i)/tpt + 1`. -/
theorem C03_bucket_window (b : Bucket) (t0 : Nat) (hb : b.WF t0)
    (ops : List (Nat × Nat × Bool)) (hs : SortedFrom t0 (ops.map (·.1)))
    (i j : Nat) (hij : i ≤ j) (hj : j < ops.length) :
    windowSum (b.run ops) i j ≤
      b.burst + ((ops.map (·.1)).getD j 0 - (ops.map (·.1)).getD i 0) / b.tpt + 1 :=
  bucket_window b t0 hb ops hs i j hij hj

/-- **Multi-rate set: the bound holds for all rates at once.** -/
theorem C03_set_window (bs : List Bucket) (t0 : Nat) (hwf : ∀ b ∈ bs, b.WF t0)
    (ops : List (Nat × Nat)) (hs : SortedFrom t0 (ops.map (·.1)))
    (i j : Nat) (hij : i ≤ j) (hj : j < ops.length) :
    ∀ b ∈ bs, windowSum (admittedSet bs ops) i j ≤
      b.burst + ((ops.map (·.1)).getD j 0 - (ops.map (·.1)).getD i 0) / b.tpt + 1 :=
  set_window bs t0 hwf ops hs i j hij hj

/-! ### the limiter -/

theorem sortedFrom_mono (ts : List Nat) (a b : Nat) (hab : a ≤ b) (h : SortedFrom b ts) : SortedFrom a ts := by
  cases ts with
  | nil => trivial
  | cons t ts => exact ⟨Nat.le_trans hab h.1, h.2⟩

theorem sorted_opsOf (s : String) (reqs : List Req) : ∀ t0, SortedFrom t0 (reqs.map (·.t)) →
    SortedFrom t0 ((opsOf s reqs).map (·.1)) := by
  induction reqs with
  | nil => intro _ _; trivial
  | cons r rs ih =>
    intro t0 h
    by_cases hr : r.src = s
    · have : opsOf s (r :: rs) = (r.t, r.amount) :: opsOf s rs := by unfold opsOf; simp [hr]
      rw [this]
      exact ⟨h.1, ih r.t h.2⟩
    · have : opsOf s (r :: rs) = opsOf s rs := by unfold opsOf; simp [hr]
      rw [this]
      exact ih t0 (sortedFrom_mono _ _ _ h.1 h.2)

/-- the statement's conditions on the configuration, as decidable-looking predicates -/
abbrev GoodRates := RL.GoodRates

/-- **Refinement.**  Fresh limiter with default rates `rates` (each accepted by `RateSet.Add`, one per
    period, `RefillWithinTTL`), any interleaved history with non-decreasing time stamps whose distinct
    sources fit the capacity, any source `s`: the decisions for `s` are exactly those of one bucket set
    created full at `s`'s first request and never forgotten.  (Expiry is unobservable.) -/
theorem C03_limiter_refines_set (rates : List Rate) (capacity : Nat) (hg : GoodRates rates)
    (reqs : List Req) (hs : SortedFrom 0 (reqs.map (·.t)))
    (hcap : (reqs.map (·.src)).dedup.length ≤ (Limiter.new rates capacity).sets.capacity) (s : String) :
    (Limiter.new rates capacity).decisionsFor s reqs = refRun rates (opsOf s reqs) := by
  have hne : (Limiter.new rates capacity).noEvict reqs := by
    apply noEvict_of_capacity (reqs.map (·.src)) reqs _ (by simp [Limiter.new, TTL.empty, Map.keys])
    · intro x hx; simp [Limiter.new, TTL.empty, Map.keys] at hx
    · exact fun r hr => List.mem_map_of_mem hr
    · exact hcap
  rw [decisions_eq_entryRun s reqs _ (spares_of_noEvict s reqs _ hne)]
  exact entryRun_none rates hg s _ 0 (sorted_opsOf s reqs 0 hs)

theorem admittedOf_runSet (ops : List (Nat × Nat)) : ∀ bs : List Bucket,
    admittedOf ((runSet bs ops).map Resp.ofSRes) ops = admittedSet bs ops := by
  induction ops with
  | nil => intro _; rfl
  | cons op ops ih =>
    intro bs
    obtain ⟨t, n⟩ := op
    unfold runSet admittedSet
    rw [List.map_cons]
    unfold admittedOf
    rw [ih]
    cases (consumeSet bs t n).2 <;> simp [Resp.ofSRes]

theorem maxPeriodOf_ge (ps : List Nat) (p : Nat) (hp : p ∈ ps) : p ≤ maxPeriodOf ps := by
  unfold maxPeriodOf
  have gen : ∀ (l : List Nat) (m : Nat), m ≤ l.foldl (fun m p => if m > p then m else p) m ∧
      ∀ p ∈ l, p ≤ l.foldl (fun m p => if m > p then m else p) m := by
    intro l
    induction l with
    | nil => intro m; exact ⟨Nat.le_refl _, fun p hp => by simp at hp⟩
    | cons x xs ih =>
      intro m
      simp only [List.foldl_cons]
      obtain ⟨h1, h2⟩ := ih (if m > x then m else x)
      by_cases hmx : m > x
      · simp only [hmx, if_true] at h1 h2 ⊢
        refine ⟨h1, ?_⟩
        intro p hp
        rcases List.mem_cons.mp hp with rfl | hp
        · omega
        · exact h2 p hp
      · simp only [hmx, if_false] at h1 h2 ⊢
        refine ⟨by omega, ?_⟩
        intro p hp
        rcases List.mem_cons.mp hp with rfl | hp
        · exact h1
        · exact h2 p hp
  exact (gen ps 0).2 p hp

/-- **The bound through the limiter.**  Under the conditions of `C03_limiter_refines_set`, for every
    source, every sub-interval `i ≤ j` of that source's requests and every configured rate `r`:
    admitted amount `≤ r.burst + (t_j − t_i)/tpt(r) + 1`. -/
theorem C03_limiter_window (rates : List Rate) (capacity : Nat) (hg : GoodRates rates)
    (reqs : List Req) (hs : SortedFrom 0 (reqs.map (·.t)))
    (hcap : (reqs.map (·.src)).dedup.length ≤ (Limiter.new rates capacity).sets.capacity) (s : String)
    (i j : Nat) (hij : i ≤ j) (hj : j < (opsOf s reqs).length) :
    ∀ r ∈ rates,
      windowSum (admittedOf ((Limiter.new rates capacity).decisionsFor s reqs) (opsOf s reqs)) i j ≤
        r.burst + (((opsOf s reqs).map (·.1)).getD j 0 - ((opsOf s reqs).map (·.1)).getD i 0) / tptOf r.period r.average + 1 := by
  intro r hr
  rw [C03_limiter_refines_set rates capacity hg reqs hs hcap s]
  have hsorted := sorted_opsOf s reqs 0 hs
  generalize opsOf s reqs = ops at *
  cases ops with
  | nil => simp at hj
  | cons op ops =>
    obtain ⟨t1, n1⟩ := op
    unfold refRun
    rw [admittedOf_runSet]
    have hp : r.period ≠ 0 := (valid_facts r (hg.valid r hr)).1
    have hb : mkBucket r t1 ∈ (BucketSet.new rates t1).buckets := by
      unfold BucketSet.new; exact List.mem_map_of_mem hr
    have hwf : ∀ b ∈ (BucketSet.new rates t1).buckets, b.WF t1 := by
      intro b hb
      unfold BucketSet.new at hb
      simp only [List.mem_map] at hb
      obtain ⟨r', _, rfl⟩ := hb
      unfold mkBucket Bucket.WF
      exact ⟨tptOf_pos _ _, Nat.le_refl _, Nat.le_refl _⟩
    have := set_window (BucketSet.new rates t1).buckets t1 hwf ((t1, n1) :: ops)
      ⟨Nat.le_refl _, hsorted.2⟩ i j hij hj (mkBucket r t1) hb
    have e1 : (mkBucket r t1).burst = r.burst := rfl
    have e2 : (mkBucket r t1).tpt = tptOf r.period r.average := by unfold mkBucket; simp [hp]
    rw [e1, e2] at this
    exact this

/-- **`burst ≤ 5 × average` suffices for periods of one second or more** (and at most one token per
    nanosecond, `average ≤ period`, so that `timePerToken` is not clamped): such a rate meets its
    part of `RefillWithinTTL` whatever the other rates of the set are. -/
theorem C03_5x_suffices (rates : List Rate) (r : Rate) (hr : r ∈ rates)
    (h1 : second ≤ r.period) (h2 : 0 < r.average) (h3 : r.average ≤ r.period) (h4 : r.burst ≤ 5 * r.average) :
    r.burst * tptOf r.period r.average ≤ 10 * (maxPeriodOf (rates.map (·.period)) / second) * second := by
  have hmp : r.period ≤ maxPeriodOf (rates.map (·.period)) := maxPeriodOf_ge _ _ (List.mem_map_of_mem hr)
  have hq : 1 ≤ r.period / r.average := (Nat.le_div_iff_mul_le h2).mpr (by omega)
  have htpt : tptOf r.period r.average = r.period / r.average := by
    unfold tptOf; split <;> omega
  rw [htpt]
  have hmul : r.average * (r.period / r.average) ≤ r.period := Nat.mul_div_le _ _
  have hb : r.burst * (r.period / r.average) ≤ 5 * r.average * (r.period / r.average) :=
    Nat.mul_le_mul_right _ h4
  have hb2 : 5 * r.average * (r.period / r.average) = 5 * (r.average * (r.period / r.average)) := by ring
  unfold second at *
  generalize maxPeriodOf (rates.map (·.period)) = mp at *
  generalize r.burst * (r.period / r.average) = x at *
  generalize r.average * (r.period / r.average) = y at *
  omega

/-- the whole set -/
theorem C03_5x_suffices_set (rates : List Rate)
    (h : ∀ r ∈ rates, second ≤ r.period ∧ 0 < r.average ∧ r.average ≤ r.period ∧ r.burst ≤ 5 * r.average) :
    RefillWithinTTL rates :=
  fun r hr => C03_5x_suffices rates r hr (h r hr).1 (h r hr).2.1 (h r hr).2.2.1 (h r hr).2.2.2

/-! ### the hypothesis is needed -/

/-- 1 token/s with burst 20 (`burst·tpt = 20 s > 10 s`): `a` takes 20 at `t = 0`, comes back at
    `t = 11 s`; its entry (expiry second 11) has been forgotten, the new one is full: 40 admitted in
    11 s, bound 32. -/
theorem C03_hypothesis_needed :
    ¬ RefillWithinTTL [⟨second, 1, 20⟩] ∧
    windowSum (admittedOf ((Limiter.new [⟨second, 1, 20⟩] 4).decisionsFor "a"
        [⟨0, "a", 20, ""⟩, ⟨11 * second, "a", 20, ""⟩]) [(0, 20), (11 * second, 20)]) 0 1
      > 20 + (11 * second - 0) / tptOf second 1 + 1 := by
  constructor
  · unfold RefillWithinTTL; decide
  · decide

/-- `average ≤ period` (in ns) in `C03_5x_suffices` cannot be dropped: 10^10 tokens/s, burst 5·10^10 = 5 × average,
    period 1 s.  `timePerToken` is clamped to 1 ns, the burst needs 50 s to refill, the entry is kept 10 s:
    10^11 admitted in 11 s against a bound of 5·10^10 + 1.1·10^10 + 1. -/
theorem C03_5x_needs_avg_le_period :
    (⟨second, 10000000000, 50000000000⟩ : Rate).valid = true ∧ second ≤ (⟨second, 10000000000, 50000000000⟩ : Rate).period ∧
    (⟨second, 10000000000, 50000000000⟩ : Rate).burst ≤ 5 * (⟨second, 10000000000, 50000000000⟩ : Rate).average ∧
    ¬ RefillWithinTTL [⟨second, 10000000000, 50000000000⟩] ∧
    windowSum (admittedOf ((Limiter.new [⟨second, 10000000000, 50000000000⟩] 4).decisionsFor "a"
        [⟨0, "a", 50000000000, ""⟩, ⟨11 * second, "a", 50000000000, ""⟩]) [(0, 50000000000), (11 * second, 50000000000)]) 0 1
      > 50000000000 + (11 * second - 0) / tptOf second 10000000000 + 1 := by
  refine ⟨by decide, by decide, by decide, ?_, by decide⟩
  unfold RefillWithinTTL; decide

/-- a sub-second `maxPeriod` gives `ttl = 1`: the entry is forgotten as soon as the wall clock shows
    the next second.  10 tokens/s, burst 3: 3 at `0.999 s`, 3 more at `1.000 s`; bound 4. -/
theorem C03_subsecond_forgets :
    windowSum (admittedOf ((Limiter.new [⟨100000000, 1, 3⟩] 4).decisionsFor "a"
        [⟨999000000, "a", 3, ""⟩, ⟨1000000000, "a", 3, ""⟩]) [(999000000, 3), (1000000000, 3)]) 0 1
      > 3 + (1000000000 - 999000000) / tptOf 100000000 1 + 1 := by
  decide

/-! ### non-vacuity -/
section NonVacuity

-- the defect witness of DESIGN §7 as a configuration: 1/s burst 5 satisfies every hypothesis
example : GoodRates [⟨second, 1, 5⟩] :=
  ⟨by decide, by decide, C03_5x_suffices_set _ (by decide)⟩
-- two rates at once
example : GoodRates [⟨second, 10, 20⟩, ⟨60 * second, 100, 500⟩] :=
  ⟨by decide, by decide, C03_5x_suffices_set _ (by decide)⟩
-- a history within capacity with sorted times, on which the decisions are not all equal
example : SortedFrom 0 (([⟨0, "a", 5, ""⟩, ⟨1, "b", 1, ""⟩, ⟨2, "a", 1, ""⟩] : List Req).map (·.t)) ∧
    (([⟨0, "a", 5, ""⟩, ⟨1, "b", 1, ""⟩, ⟨2, "a", 1, ""⟩] : List Req).map (·.src)).dedup.length
      ≤ (Limiter.new [⟨second, 1, 5⟩] 2).sets.capacity ∧
    (Limiter.new [⟨second, 1, 5⟩] 2).decisionsFor "a" [⟨0, "a", 5, ""⟩, ⟨1, "b", 1, ""⟩, ⟨2, "a", 1, ""⟩]
      = [.ok, .tooMany 1000000000] :=
  ⟨⟨by decide, by decide, by decide, trivial⟩, by decide, by decide⟩
-- a well-formed bucket and a history on which the `+ 1` of the bound is attained
example : (⟨1000, 100, 5, 5, 0, 0⟩ : Bucket).WF 99 ∧
    windowSum ((⟨1000, 100, 5, 5, 0, 0⟩ : Bucket).run [(99, 5, false), (100, 1, false)]) 0 1 = 5 + (100 - 99) / 100 + 1 := by
  decide

end NonVacuity

end C03
