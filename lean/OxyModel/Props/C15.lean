import OxyModel.Proofs.Buffer.Loop

/-!
# C15 — Buffer enforces its size limits and leaves no temporary files behind

Property theorems only.  Model: `Buf.serve` (`OxyModel/Model/Buffer.lean`) including `multibuf.New`
(request side) and `multibuf.writerOnce` (response side) with a ledger of temporary files:
`(serve …).created` / `.removed` count the files created / removed during the exchange, and
`views[i].filesAtExit` the files on disk when invocation `i+1` returned.  A maximum `≤ 0` (the default
`-1`, or `0` set explicitly) means "no limit"; a memory threshold `0` means multibuf's default 1 MiB.
-/
namespace C15
open Buf

/-- **C15 (request over the maximum ⇒ 413, handler never reached)**: for every request whose body is longer
    than a positive request maximum — with a declared length (`req.chunked = false`, rejected by `checkLimit`
    before anything is read) or discovered while the chunked body is read (`req.chunked = true`, `maxReader`) —
    the handler is not invoked, the client receives status 413 with the fixed text, and nothing is hijacked. -/
theorem C15_request_over_limit_413_no_invoke (cfg : Cfg) (req : Req) (script : Nat → Attempt)
    (hov : requestOver cfg req) :
    (serve cfg req script).invocations = 0 ∧ (serve cfg req script).resp.status = some 413 ∧
    (serve cfg req script).resp.body = textBytes "Request Entity Too Large" ∧
    (serve cfg req script).hijacked = false := by
  obtain ⟨c, hc⟩ := serve_rejected cfg req script hov
  rw [hc]
  exact ⟨rfl, rfl, rfl, rfl⟩

/-- the converse, so that the 413 is not handed out too eagerly: a body within the maximum (or no maximum)
    reaches the handler -/
theorem C15_within_limit_reaches_handler (cfg : Cfg) (req : Req) (script : Nat → Attempt)
    (hadm : ¬ requestOver cfg req) : 1 ≤ (serve cfg req script).invocations := by
  obtain ⟨b, c, _, _, _, hs⟩ := serve_admitted cfg req script hadm
  obtain ⟨m, m1, _, _, _, m5, _⟩ :=
    loop_decide cfg req (Heap.ofReq req).2 (ofReq_spec req).1 script req.body.length c c (DefaultMaxRetryAttempts + 1) 1
      (if req.body.length == 0 then none else some b) [] [] (Heap.ofReq req).1 (by decide) (by decide)
  unfold Result.invocations; rw [hs, m5]; simp; exact m1

/-- **C15 (response over the maximum ⇒ error status, none of its bytes)**: if any invocation `k` of an admitted
    request writes more than a positive response maximum in total (whatever the chunking, and whether or not part
    of it was already spilled to disk), returns normally and does not take the connection over, then `k` is the last invocation and
    the client receives status 500 with the fixed error text and no header of the attempt — no byte of the
    response. -/
theorem C15_response_over_limit_no_bytes (cfg : Cfg) (req : Req) (script : Nat → Attempt)
    (hadm : ¬ requestOver cfg req) (k : Nat) (hk1 : 1 ≤ k) (hk2 : k ≤ (serve cfg req script).invocations)
    (ho : overLimit cfg (script k)) (hp : ¬ panics (script k)) (hh : ¬ hijackEff cfg (script k)) :
    k = (serve cfg req script).invocations ∧ (serve cfg req script).resp.status = some 500 ∧
    (serve cfg req script).resp.body = textBytes "Internal Server Error" ∧
    (serve cfg req script).resp.sentHeader = [] ∧ (serve cfg req script).hijacked = false := by
  obtain ⟨b, c, _, _, _, hs⟩ := serve_admitted cfg req script hadm
  obtain ⟨m, m1, m2, m3, m4, m5, m6, m7, m8, _⟩ :=
    loop_decide cfg req (Heap.ofReq req).2 (ofReq_spec req).1 script req.body.length c c (DefaultMaxRetryAttempts + 1) 1
      (if req.body.length == 0 then none else some b) [] [] (Heap.ofReq req).1 (by decide) (by decide)
  have hn : (serve cfg req script).invocations = m := by
    unfold Result.invocations; rw [hs, m5]; simp
  rw [hn] at hk2 ⊢
  rw [← hs] at m8
  have hfin := (settle_spec cfg req k (script k)).2.2.2.1 hp hh ho
  have hkm : k = m := by
    by_cases hlt : k < m
    · have := m3 k hk1 hlt
      unfold Att at this; rw [hfin] at this; cases this
    · omega
  subst hkm
  obtain ⟨r1, _, r2⟩ := m8 _ hfin
  rw [r2]
  exact ⟨rfl, rfl, rfl, rfl, r1⟩

/-- **C15 (no temporary file remains)**: for every configuration (memory thresholds and maxima in every relation,
    including 0 and the defaults), every request and every handler script — success, error, request or response
    over a limit, any number of retries, HEAD / 1xx / 204 / 304 / `Content-Length: 0` / gRPC-status responses whose
    spilled body is never read back, hijacked connections, and a handler that panics after spilling (only the deferred
    closes run) — every temporary file created during the exchange has
    been removed when `ServeHTTP` returns. -/
theorem C15_no_temp_left (cfg : Cfg) (req : Req) (script : Nat → Attempt) :
    (serve cfg req script).created = (serve cfg req script).removed := by
  by_cases hov : requestOver cfg req
  · obtain ⟨c, hc⟩ := serve_rejected cfg req script hov
    rw [hc]
  · obtain ⟨b, c, _, _, _, hs⟩ := serve_admitted cfg req script hov
    rw [hs]
    have := loop_ledger cfg req (Heap.ofReq req).2 (ofReq_spec req).1 script req.body.length c c (DefaultMaxRetryAttempts + 1) 1
      (if req.body.length == 0 then none else some b) [] [] (Heap.ofReq req).1 (fun e he => by cases he)
    omega

private theorem length_flatten_eq (ws : List Bytes) : ws.flatten.length = sumLen ws := by
  simp [sumLen, List.length_flatten]

/-- **C15 (bodies beyond the memory threshold are spilled)**: (request) a body at least as long as the effective
    request memory threshold is put in a temporary file; (response) when an invocation has written, within the
    maximum, more than the response memory threshold, a temporary file exists when it returns. -/
theorem C15_spills_beyond_threshold (cfg : Cfg) (req : Req) (script : Nat → Attempt) (hadm : ¬ requestOver cfg req) :
    (effMem cfg.maxReq cfg.memReq ≤ req.body.length → 1 ≤ (serve cfg req script).created) ∧
    (∀ i v, (serve cfg req script).views[i]? = some v → ¬ overLimit cfg (script (i + 1)) →
      (if cfg.memResp = 0 then MultibufDefaultMemBytes else cfg.memResp) < sumLen (script (i + 1)).writes →
      1 ≤ v.filesAtExit) := by
  obtain ⟨b, c, hd, hp, hc1, hs⟩ := serve_admitted cfg req script hadm
  constructor
  · intro h
    rw [hs, ← hc1 h]
    exact loop_created_ge _ _ _ (ofReq_spec req).1 _ _ _ _ _ _ _ _ _ _
  · intro i v h
    rw [hs] at h
    have hb : BodyInv req (if req.body.length == 0 then none else some b) := by
      by_cases hz : req.body.length = 0
      · simp only [hz, beq_self_eq_true, if_true, BodyInv]; exact List.eq_nil_of_length_eq_zero hz
      · simp only [beq_iff_eq, hz, if_false, BodyInv]; exact ⟨hd, hp⟩
    have := loop_views cfg req (Heap.ofReq req).2 (ofReq_spec req).1 script req.body.length c c
      (fun k v => (fresh cfg (script k)).buffer.onDisk = true → 1 ≤ v.filesAtExit) (fun _ => True) (fun _ _ _ => trivial)
      (fun k d _ _ hon => by simp only [hon, if_true]; omega) _ 1 _ [] [] _ rfl hb trivial (fun i v hv => by simp at hv) i v h
    intro hno hgt
    apply this
    obtain ⟨_, herr, hdata, _, _, _, _, hmem, _⟩ := fresh_spec cfg (script (i + 1))
    have hne : (fresh cfg (script (i + 1))).writeError = false := by
      cases hw : (fresh cfg (script (i + 1))).writeError
      · rfl
      · exact absurd (herr.mp hw) hno
    have hinv := hdata hne
    by_cases hst : (fresh cfg (script (i + 1))).buffer.state = .file
    · exact (hinv.fileSt hst).2.1
    · exfalso
      have h5 := (hinv.noFile hst).2.2.2.2
      rw [hinv.total, length_flatten_eq, hmem] at h5
      simp only [beq_iff_eq] at h5
      omega

/-! ## non-vacuity -/

def exReq (chunked : Bool) (n : Nat) : Req :=
  { method := "PUT", url := "/u", header := [], chunked := chunked, body := List.replicate n 7 }

/-- request maximum 5 with memory threshold 2: six bytes are refused with either framing -/
example : requestOver { maxReq := 5, memReq := 2 } (exReq false 6) ∧ requestOver { maxReq := 5, memReq := 2 } (exReq true 6) := by
  decide
example : (serve { maxReq := 5, memReq := 2 } (exReq true 6) (fun _ => {})).resp.status = some 413 := by decide
example : (serve { maxReq := 5, memReq := 2 } (exReq true 5) (fun _ => {})).invocations = 1 := by decide

/-- response memory threshold 4, maximum 10, writes of 3+3+3+3 bytes: spilled at the second write, over the
    limit at the fourth -/
def exCfg : Cfg := { memResp := 4, maxResp := 10 }
def exScript : Nat → Attempt := fun _ => { writes := [[1, 1, 1], [2, 2, 2], [3, 3, 3], [4, 4, 4]] }

example : ¬ requestOver exCfg (exReq false 3) ∧ overLimit exCfg (exScript 1) ∧ ¬ panics (exScript 1) ∧ ¬ hijackEff exCfg (exScript 1) := by decide
example : (serve exCfg (exReq false 3) exScript).resp.status = some 500 ∧
    (serve exCfg (exReq false 3) exScript).created = 1 ∧ (serve exCfg (exReq false 3) exScript).removed = 1 := by decide
/-- a HEAD request whose spilled response body is never read back, after two retried attempts that spilled too -/
example : (serve { memResp := 1, retry := some (.cmp .attempts .lt 3) }
    { method := "HEAD", url := "/", header := [], chunked := false, body := [] }
    (fun _ => { writes := [[1, 2, 3]] })).created = 3 := by decide
example : (serve { memResp := 1, retry := some (.cmp .attempts .lt 3) }
    { method := "HEAD", url := "/", header := [], chunked := false, body := [] }
    (fun _ => { writes := [[1, 2, 3]] })).views.map (·.filesAtExit) = [1, 2, 3] := by decide

/-- a handler that panics after spilling, on the second attempt: both files are removed by the deferred closes -/
example : (serve { memResp := 1, retry := some (.cmp .attempts .lt 2) }
    { method := "GET", url := "/", header := [], chunked := false, body := [] }
    (fun _ => { writes := [[1, 2, 3]], panic := true })).created = 1 ∧
    (serve { memResp := 1, retry := some (.cmp .attempts .lt 2) }
    { method := "GET", url := "/", header := [], chunked := false, body := [] }
    (fun _ => { writes := [[1, 2, 3]], panic := true })).removed = 1 ∧
    (serve { memResp := 1, retry := some (.cmp .attempts .lt 2) }
    { method := "GET", url := "/", header := [], chunked := false, body := [] }
    (fun _ => { writes := [[1, 2, 3]], panic := true })).panicked = true := by decide

end C15
