import OxyModel.Proofs.ConnLimit.Safety

/-!
# C04 — per-source concurrency never exceeds the limit; slots are always returned

Property theorems only (helper lemmas: `OxyModel/Proofs/ConnLimit`).  Model:
`OxyModel/Model/ConnLimit.lean` (`ConnLimit.step` = `ConnLimiter.ServeHTTP` cut at its two
lock-atomic steps `acquire` / deferred `release`).  A *history* is any list of events — any
interleaving of arrivals and completions of any number of requests and sources, including protocol
misuse (`finish` of an unknown id), extractor errors, and both exit modes.  Every statement about
"the state after `h`" quantifies over all `h`, hence over every prefix of every interleaving.
-/
namespace C04
open ConnLimit

/-- **C04 (bound)**: for every limit, every history whose extractor amounts are `≥ 1`, every prefix
    of it and every source: the number of that source's requests inside the protected handler is at
    most the limit (`0` when the limit is negative).
    `amount ≥ 1` is needed: the code admits on `connections[src] < max` and then adds `amount`, so
    an extractor that returns `0` (or a negative amount) is never limited — see the `example` below. -/
theorem C04_inflight_le_max (mx : Int) (h : List Event) (hp : amountsPos h = true) (k : Nat) (src : String) :
    inflightCount (run (Sys.init mx) (h.take k)).inflight src ≤ mx.toNat := by
  have := ((Safe.init mx).after_run _ (amountsPos_take (amountsPos_spec hp) k)).bound src
  rwa [run_max] at this

/-- **C04 (429 only when full, and always when full)**: after any unit-amount history (the built-in
    extractors, C19) a newly arriving request of `src` is rejected iff `src` already has `max`
    requests inside the handler, and admitted otherwise.  (`id` not in flight: the harness never
    reuses the id of a running request.) -/
theorem C04_reject_iff_full (mx : Int) (h : List Event) (h1 : amountsOne h = true) (id src : String)
    (hfresh : findReq (run (Sys.init mx) h).inflight id = none) :
    let s := run (Sys.init mx) h
    ((step s (.start id src 1)).2 = Out.rejected ↔ mx ≤ (inflightCount s.inflight src : Int)) ∧
    ((step s (.start id src 1)).2 = Out.admitted ↔ (inflightCount s.inflight src : Int) < mx) ∧
    (0 ≤ mx → ((step s (.start id src 1)).2 = Out.rejected ↔ (inflightCount s.inflight src : Int) = mx)) := by
  intro s
  have hu : Unit1 s := (Unit1.init mx).after_run h (amountsOne_spec h1)
  have hout := hu.start_out id src hfresh
  have hmax : s.max = mx := run_max _ _
  have hb := hu.bound src
  rw [hmax] at hout hb
  by_cases hc : mx ≤ (inflightCount s.inflight src : Int)
  · simp only [hc, if_true] at hout
    refine ⟨by simp [hout, hc], by simp [hout]; omega, fun h0 => by simp [hout]; omega⟩
  · simp only [hc, if_false] at hout
    refine ⟨by simp [hout, hc], by simp [hout]; omega, fun h0 => by simp [hout]; omega⟩

/-- **C04 (the table is exact)**: after every history (any amounts, exits, misuse) the table entry of
    every source is exactly what the requests still inside the handler hold, and `totalConnections`
    is their sum: no finished request — returned or panicked — keeps a slot, no running one lost it. -/
theorem C04_slots_exact (mx : Int) (h : List Event) (src : String) :
    get (run (Sys.init mx) h).st.conns src = heldBy (run (Sys.init mx) h).inflight src ∧
    (run (Sys.init mx) h).st.total = heldAll (run (Sys.init mx) h).inflight :=
  ⟨((Inv.init mx).after_run h).acct src, ((Inv.init mx).after_run h).tot⟩

/-- **C04 (slot returned on every exit)**: in every reachable state, for every request `r` inside the
    handler, leaving it — by return *or* by panic — gives back exactly `r.amount` to `r.src`, touches
    no other source, takes `r` (and only `r`) out of the handler; the two exit modes lead to the
    same state. -/
theorem C04_release_on_every_exit (mx : Int) (h : List Event) (id : String) (r : Req)
    (hf : findReq (run (Sys.init mx) h).inflight id = some r) (how : Exit) :
    let s := run (Sys.init mx) h
    let s' := (step s (.finish id how)).1
    (step s (.finish id how)).2 = Out.released ∧
    get s'.st.conns r.src = get s.st.conns r.src - r.amount ∧
    s'.st.total = s.st.total - r.amount ∧
    (∀ k, k ≠ r.src → get s'.st.conns k = get s.st.conns k) ∧
    (∀ k, inflightCount s'.inflight k + (if r.src = k then 1 else 0) = inflightCount s.inflight k) ∧
    step s (.finish id .normal) = step s (.finish id .panic) := by
  intro s s'
  have hs' : s' = ⟨s.max, release s.st r.src r.amount, dropReq s.inflight id⟩ := by
    simp only [s', step, s, hf]
  refine ⟨by simp only [step, s, hf], ?_, ?_, ?_, ?_, by simp only [step]⟩
  · rw [hs']; exact release_get_same _ _ _
  · rw [hs']; rfl
  · intro k hk; rw [hs']; exact release_get_other _ _ _ _ hk
  · intro k; rw [hs']; exact count_dropReq hf k

/-- **C04 (quiescence restores the full limit)**: after every history (any amounts, exits, misuse)
    that leaves no request inside the handler, the table is empty and the total is zero — the limiter
    is in its initial state — and therefore `max` further arrivals of any one source are all admitted. -/
theorem C04_quiescent_restores_max (mx : Int) (h : List Event)
    (hq : (run (Sys.init mx) h).inflight = []) :
    run (Sys.init mx) h = Sys.init mx ∧
    ∀ (src : String) (ids : List String), ids.Nodup → (ids.length : Int) ≤ mx →
      outs (run (Sys.init mx) h) (ids.map fun id => Event.start id src 1)
        = List.replicate ids.length Out.admitted := by
  have hi := (Inv.init mx).after_run h
  have hinit : run (Sys.init mx) h = Sys.init mx := by
    have hm : (run (Sys.init mx) h).max = mx := run_max _ _
    have hc : (run (Sys.init mx) h).st.conns = [] := by
      cases hcs : (run (Sys.init mx) h).st.conns with
      | nil => rfl
      | cons a t =>
        obtain ⟨r, hr, _⟩ := hi.keys a.1 (by simp [hcs])
        rw [hq] at hr; simp at hr
    have ht : (run (Sys.init mx) h).st.total = 0 := by rw [hi.tot, hq]; rfl
    generalize run (Sys.init mx) h = s at *
    obtain ⟨m, ⟨c, t⟩, l⟩ := s
    simp_all [Sys.init, State.empty]
  refine ⟨hinit, fun src ids hnd hlen => ?_⟩
  rw [hinit]
  apply (Unit1.init mx).admit_all src ids hnd
  · intro r hr; simp [Sys.init] at hr
  · simp [Sys.init, inflightCount]; exact hlen

/-! ### non-vacuity and sharpness -/

/-- an interleaving of two sources with both exit modes; limit 1 -/
private def demo : List Event :=
  [.start "a" "s" 1, .start "b" "s" 1, .start "c" "t" 1, .finish "a" .panic, .start "d" "s" 1,
   .finish "zz" .normal, .startErr "e", .finish "c" .normal, .finish "d" .normal]

example : outs (Sys.init 1) demo =
    [.admitted, .rejected, .admitted, .released, .admitted, .unknown, .extractErr, .released, .released] := by
  decide
example : amountsPos demo = true ∧ amountsOne demo = true := by decide
example : (run (Sys.init 1) demo).inflight = [] := by decide
example : findReq (run (Sys.init 1) (demo.take 3)).inflight "a" = some ⟨"a", "s", 1⟩ := by decide
example : findReq (run (Sys.init 1) (demo.take 3)).inflight "fresh" = none := by decide

/-- sharpness of `amount ≥ 1`: with an extractor amount of `0` three requests of one source are
    inside the handler under limit 1 -/
example : inflightCount (run (Sys.init 1) [.start "a" "s" 0, .start "b" "s" 0, .start "c" "s" 0]).inflight "s" = 3 := by
  decide

/-- with amount 2 the table entry may exceed the limit while the *number of requests* does not -/
example : let s := run (Sys.init 3) [.start "a" "s" 2, .start "b" "s" 2, .start "c" "s" 2]
    get s.st.conns "s" = 4 ∧ inflightCount s.inflight "s" = 2 := by decide

end C04
