import OxyModel.Proofs.ConnLimit.Rejecting

/-!
# C04 — per-source concurrency never exceeds the limit; slots are always returned

Property theorems only (helper lemmas: `OxyModel/Proofs/ConnLimit`).  Model:
`OxyModel/Model/ConnLimit.lean`: `ConnLimit.step` = `ConnLimiter.ServeHTTP` cut at its two lock-atomic
steps `acquire` / deferred `release`, under the layer `ConnLimit.stepR` that also tracks rejections
*in progress* (requests parked inside a slow `ErrorHandler`; `slow = false` is the default handler,
for which the layer is `step` itself: `ConnLimit.fast_runR`).  A *history* is any list of events — any
interleaving of arrivals and completions of any number of requests and sources, including protocol
misuse (`finish` of an unknown id), extractor errors, both exit modes and any number of rejections in
progress.  Every statement about "the state after `h`" quantifies over all `h`, hence over every
prefix of every interleaving.  `s.base.inflight` are the requests inside the protected handler.
-/
namespace C04
open ConnLimit

/-- **C04 (bound)**: for every limit, either kind of error handler, every history whose extractor
    amounts are `≥ 1`, every prefix of it and every source: the number of that source's requests
    inside the protected handler is at most the limit (`0` when the limit is negative).
    `amount ≥ 1` is needed: the code admits on `connections[src] < max` and then adds `amount`, so
    an extractor that returns `0` (or a negative amount) is never limited — see the `example` below. -/
theorem C04_inflight_le_max (mx : Int) (slow : Bool) (h : List Event) (hp : amountsPos h = true) (k : Nat) (src : String) :
    inflightCount (runR (SysR.init mx slow) (h.take k)).base.inflight src ≤ mx.toNat := by
  have := (Safe.after_runR (s := SysR.init mx slow) (Safe.init mx) _ (amountsPos_take (amountsPos_spec hp) k)).bound src
  rwa [runR_max] at this

/-- **C04 (429 only when full, and always when full)**: after any unit-amount history (the built-in
    extractors, C19) a newly arriving request of `src` is turned away (answered 429, or parked in the
    slow error handler on its way to 429) iff `src` already has `max` requests inside the protected
    handler, and admitted otherwise — rejections in progress do not count.  (`id` not in use: the
    harness never reuses the id of a request that has not ended.) -/
theorem C04_reject_iff_full (mx : Int) (slow : Bool) (h : List Event) (h1 : amountsOne h = true) (id src : String)
    (hfresh : findReq (runR (SysR.init mx slow) h).base.inflight id = none)
    (hfreshR : findRej (runR (SysR.init mx slow) h).rejecting id = none) :
    let s := runR (SysR.init mx slow) h
    let o := (stepR s (.start id src 1)).2
    ((o = .base .rejected ∨ o = .rejecting) ↔ mx ≤ (inflightCount s.base.inflight src : Int)) ∧
    (o = .base .admitted ↔ (inflightCount s.base.inflight src : Int) < mx) ∧
    (0 ≤ mx → ((o = .base .rejected ∨ o = .rejecting) ↔ (inflightCount s.base.inflight src : Int) = mx)) := by
  intro s o
  have hu : Unit1 s.base := Unit1.after_runR (s := SysR.init mx slow) (Unit1.init mx) h (amountsOne_spec h1)
  have hout : o = _ := hu.startR_out id src hfresh hfreshR
  have hmax : s.base.max = mx := runR_max _ _
  have hb := hu.bound src
  rw [hmax] at hout hb
  by_cases hc : mx ≤ (inflightCount s.base.inflight src : Int)
  · simp only [hc, if_true] at hout
    by_cases hsl : s.slow = true
    · simp only [hsl, if_true] at hout
      refine ⟨by simp [hout, hc], by simp [hout]; omega, fun h0 => by simp [hout]; omega⟩
    · simp only [hsl] at hout
      refine ⟨by simp [hout, hc], by simp [hout]; omega, fun h0 => by simp [hout]; omega⟩
  · simp only [hc, if_false] at hout
    refine ⟨by simp [hout, hc], by simp [hout]; omega, fun h0 => by simp [hout]; omega⟩

/-- **C04 (the table is exact)**: after every history (any amounts, exits, misuse, rejections in
    progress) the table entry of every source is exactly what the requests still inside the protected
    handler hold, and `totalConnections` is their sum: no finished request — returned or panicked —
    keeps a slot, no running one lost it, and no request that is being rejected has one. -/
theorem C04_slots_exact (mx : Int) (slow : Bool) (h : List Event) (src : String) :
    let s := runR (SysR.init mx slow) h
    get s.base.st.conns src = heldBy s.base.inflight src ∧ s.base.st.total = heldAll s.base.inflight := by
  intro s
  have hi : Inv s.base := Inv.after_runR (s := SysR.init mx slow) (Inv.init mx) h
  exact ⟨hi.acct src, hi.tot⟩

/-- **C04 (a rejection holds nothing)**: in every state, an arrival that is turned away — answered 429
    at once or parked in the slow error handler — leaves the limiter (table, total, requests inside the
    handler) exactly as it was, and so does the end of a rejection in progress.  Hence the decision
    for any later arrival (`C04_reject_iff_full`) cannot depend on rejections, finished or not. -/
theorem C04_rejection_holds_nothing (s : SysR) (e : Event)
    (ho : (stepR s e).2 = .base .rejected ∨ (stepR s e).2 = .rejecting ∨ (stepR s e).2 = .rejectedDone) :
    (stepR s e).1.base = s.base := by
  cases e with
  | startErr id => simp [stepR, step] at ho
  | start id src a =>
    simp only [stepR] at ho ⊢
    split
    · rfl
    · rename_i hx
      simp only [hx] at ho
      by_cases hc : s.slow = true ∧ (step s.base (.start id src a)).2 = .rejected
      · simp only [hc, and_self, if_true]
        exact step_rejected_same _ _ hc.2
      · simp only [hc, if_false] at ho ⊢
        rcases ho with ho | ho | ho
        · simp at ho; exact step_rejected_same _ _ ho
        · cases ho
        · cases ho
  | finish id how =>
    simp only [stepR] at ho ⊢
    split
    · rfl
    · rename_i hx
      simp only [hx] at ho
      simp only [step] at ho
      split at ho <;> simp at ho

/-- **C04 (slot returned on every exit)**: in every reachable state, for every request `r` inside the
    handler, leaving it — by return *or* by panic — gives back exactly `r.amount` to `r.src`, touches
    no other source, takes `r` (and only `r`) out of the handler; the two exit modes lead to the
    same state. -/
theorem C04_release_on_every_exit (mx : Int) (slow : Bool) (h : List Event) (id : String) (r : Req)
    (hf : findReq (runR (SysR.init mx slow) h).base.inflight id = some r)
    (hr : findRej (runR (SysR.init mx slow) h).rejecting id = none) (how : Exit) :
    let s := runR (SysR.init mx slow) h
    let s' := (stepR s (.finish id how)).1
    (stepR s (.finish id how)).2 = .base .released ∧
    get s'.base.st.conns r.src = get s.base.st.conns r.src - r.amount ∧
    s'.base.st.total = s.base.st.total - r.amount ∧
    (∀ k, k ≠ r.src → get s'.base.st.conns k = get s.base.st.conns k) ∧
    (∀ k, inflightCount s'.base.inflight k + (if r.src = k then 1 else 0) = inflightCount s.base.inflight k) ∧
    stepR s (.finish id .normal) = stepR s (.finish id .panic) := by
  intro s s'
  have hs' : s'.base = ⟨s.base.max, release s.base.st r.src r.amount, dropReq s.base.inflight id⟩ := by
    simp only [s', stepR, s, hr, step, hf]
  refine ⟨by simp only [stepR, s, hr, step, hf], ?_, ?_, ?_, ?_, by simp only [stepR, step]⟩
  · rw [hs']; exact release_get_same _ _ _
  · rw [hs']; rfl
  · intro k hk; rw [hs']; exact release_get_other _ _ _ _ hk
  · intro k; rw [hs']; exact count_dropReq hf k

/-- **C04 (quiescence restores the full limit)**: after every history (any amounts, exits, misuse)
    that leaves no request inside the protected handler — rejections may still be in progress — the
    table is empty and the total is zero, i.e. the limiter is in its initial state, and therefore `max`
    further arrivals of any one source are all admitted. -/
theorem C04_quiescent_restores_max (mx : Int) (slow : Bool) (h : List Event)
    (hq : (runR (SysR.init mx slow) h).base.inflight = []) :
    (runR (SysR.init mx slow) h).base = Sys.init mx ∧
    ∀ (src : String) (ids : List String), ids.Nodup → (ids.length : Int) ≤ mx →
      (∀ r ∈ (runR (SysR.init mx slow) h).rejecting, r.id ∉ ids) →
      outsR (runR (SysR.init mx slow) h) (ids.map fun id => Event.start id src 1)
        = List.replicate ids.length (OutR.base .admitted) := by
  have hi : Inv (runR (SysR.init mx slow) h).base := Inv.after_runR (s := SysR.init mx slow) (Inv.init mx) h
  have hinit : (runR (SysR.init mx slow) h).base = Sys.init mx := by
    have hm : (runR (SysR.init mx slow) h).base.max = mx := runR_max _ _
    have hc : (runR (SysR.init mx slow) h).base.st.conns = [] := by
      cases hcs : (runR (SysR.init mx slow) h).base.st.conns with
      | nil => rfl
      | cons a t =>
        obtain ⟨r, hr, _⟩ := hi.keys a.1 (by simp [hcs])
        rw [hq] at hr; simp at hr
    have ht : (runR (SysR.init mx slow) h).base.st.total = 0 := by rw [hi.tot, hq]; rfl
    generalize (runR (SysR.init mx slow) h).base = s at *
    obtain ⟨m, ⟨c, t⟩, l⟩ := s
    simp_all [Sys.init, State.empty]
  refine ⟨hinit, fun src ids hnd hlen hfr => ?_⟩
  have hu : Unit1 (runR (SysR.init mx slow) h).base := by rw [hinit]; exact Unit1.init mx
  apply hu.admit_allR src ids hnd
  · intro r hr; rw [hinit] at hr; simp [Sys.init] at hr
  · exact hfr
  · rw [hinit]; simp [Sys.init, inflightCount]; exact hlen

/-! ### non-vacuity and sharpness -/

/-- an interleaving of two sources with both exit modes; limit 1 -/
private def demo : List Event :=
  [.start "a" "s" 1, .start "b" "s" 1, .start "c" "t" 1, .finish "a" .panic, .start "d" "s" 1,
   .finish "zz" .normal, .startErr "e", .finish "c" .normal, .finish "d" .normal]

example : outsR (SysR.init 1 false) demo =
    [.base .admitted, .base .rejected, .base .admitted, .base .released, .base .admitted, .base .unknown,
     .base .extractErr, .base .released, .base .released] := by
  decide
example : amountsPos demo = true ∧ amountsOne demo = true := by decide
example : (runR (SysR.init 1 false) demo).base.inflight = [] := by decide
example : findReq (runR (SysR.init 1 true) (demo.take 3)).base.inflight "a" = some ⟨"a", "s", 1⟩ := by decide
example : findReq (runR (SysR.init 1 true) (demo.take 3)).base.inflight "fresh" = none ∧
    findRej (runR (SysR.init 1 true) (demo.take 3)).rejecting "fresh" = none := by decide

/-- a rejection in progress does not occupy a slot: limit 1, `a` admitted, `b` parked in the slow error
    handler, `a` finishes, `c` arrives while `b` is still being rejected — and is admitted -/
example : outsR (SysR.init 1 true) [.start "a" "s" 1, .start "b" "s" 1, .finish "a" .normal, .start "c" "s" 1,
      .start "b" "s" 1, .finish "b" .normal, .start "d" "s" 1] =
    [.base .admitted, .rejecting, .base .released, .base .admitted, .base .dup, .rejectedDone, .rejecting] := by
  decide

/-- sharpness of `amount ≥ 1`: with an extractor amount of `0` three requests of one source are
    inside the handler under limit 1 -/
example : inflightCount (runR (SysR.init 1 false) [.start "a" "s" 0, .start "b" "s" 0, .start "c" "s" 0]).base.inflight "s" = 3 := by
  decide

/-- with amount 2 the table entry may exceed the limit while the *number of requests* does not -/
example : let s := (runR (SysR.init 3 false) [.start "a" "s" 2, .start "b" "s" 2, .start "c" "s" 2]).base
    get s.st.conns "s" = 4 ∧ inflightCount s.inflight "s" = 2 := by decide

end C04
