import OxyModel.Props.C14
#print axioms C14.C14_rate_noninterference
#print axioms C14.C14_rate_noninterference_new
#print axioms C14.C14_evict_others_unchanged
#print axioms C14.C14_within_capacity_no_eviction
#print axioms C14.C14_evict_min_only
#print axioms C14.C14_conn_noninterference
#print axioms C14.C14_evict_others_unchanged_rates
#print axioms C14.C14_rate_noninterference_rates
#print axioms C14.C14_evict_min_only_rel
#print axioms C14.C14_heap_consistent
#print axioms C14.C14_heap_pop_isMin
#print axioms C14.C14_evicted_restarts
