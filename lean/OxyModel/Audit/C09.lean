import OxyModel.Props.C09
#print axioms C09.C09_lockset_sound
#print axioms C09.C09_no_race
#print axioms C09.C09_no_lost_update
#print axioms C09.C09_no_lost_update_general
#print axioms C09.C09_discipline
#print axioms C09.C09_updates_atomic
#print axioms C09.C09_no_lost_update_facts
#print axioms C09.C09_race_free_instances_partial
#print axioms C09.C09_race_free_partial
