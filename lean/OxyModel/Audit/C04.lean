import OxyModel.Props.C04
#print axioms C04.C04_inflight_le_max
#print axioms C04.C04_reject_iff_full
#print axioms C04.C04_slots_exact
#print axioms C04.C04_rejection_holds_nothing
#print axioms C04.C04_release_on_every_exit
#print axioms C04.C04_quiescent_restores_max
