import OxyModel.Props.C10
#print axioms C10.C10_range
#print axioms C10.C10_servable
#print axioms C10.C10_once_per_backoff
#print axioms C10.C10_mixed_share_not_up
#print axioms C10.C10_outlier_means_mixed
#print axioms C10.C10_outlier_share_not_up
#print axioms C10.C10_negative_ratings_counterexample
#print axioms C10.C10_membership_restores
#print axioms C10.C10_timer_bound
#print axioms C10.C10_outlier_loses_partial
#print axioms C10.C10_outlier_loses_within_partial
#print axioms C10.C10_outlier_loses_counterexample
#print axioms C10.C10_converges_in_6
