import OxyModel.Props.C03
#print axioms C03.C03_bucket_window
#print axioms C03.C03_set_window
#print axioms C03.C03_limiter_refines_set
#print axioms C03.C03_limiter_window
#print axioms C03.C03_5x_suffices
#print axioms C03.C03_5x_suffices_set
#print axioms C03.C03_hypothesis_needed
#print axioms C03.C03_subsecond_forgets
#print axioms C03.C03_5x_needs_avg_le_period
