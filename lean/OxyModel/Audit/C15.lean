import OxyModel.Props.C15
#print axioms C15.C15_request_over_limit_413_no_invoke
#print axioms C15.C15_within_limit_reaches_handler
#print axioms C15.C15_response_over_limit_no_bytes
#print axioms C15.C15_no_temp_left
#print axioms C15.C15_spills_beyond_threshold
