import OxyModel.Props.C20
#print axioms C20.C20_transparent
#print axioms C20.C20_decorate_only_cookies
#print axioms C20.C20_decisive_at
#print axioms C20.C20_decisive
#print axioms C20.C20_status_table
#print axioms C20.C20_response_limit
#print axioms C20.C20_abort_restores
#print axioms C20.C20_abort_state
#print axioms C20.C20_failed_hijack_relayed
#print axioms C20.C20_info_implicit_final_counterexample
#print axioms C20.C20_retry_documented
#print axioms C20.C20_expectBody_false_iff
#print axioms C20.C20_buffer_drops_body_kinds
#print axioms C20.C20_retry_stateful_link
