import OxyModel.Props.C08
#print axioms C08.C08_target_roundtrip
#print axioms C08.C08_target_roundtrip_absolute
#print axioms C08.C08_form_parsed_counterexample
#print axioms C08.C08_user_agent
#print axioms C08.C08_host
#print axioms C08.C08_hop_by_hop_removed
#print axioms C08.C08_end_to_end_preserved
#print axioms C08.C08_resp_hop_by_hop_removed_partial
#print axioms C08.C08_resp_standard_hop_removed
#print axioms C08.C08_resp_close_counterexample
#print axioms C08.C08_resp_end_to_end_preserved
#print axioms C08.C08_xfwd_survive
#print axioms C08.C08_xfwd_filled_iff_absent
#print axioms C08.C08_xff_appended
