import OxyModel.Props.C18
#print axioms C18.C18_env_values
#print axioms C18.C18_window
#print axioms C18.C18_window_fused
#print axioms C18.C18_eval_standard
#print axioms C18.C18_eval_standard_general
#print axioms C18.C18_trips_iff
#print axioms C18.C18_trips_iff_fused
#print axioms C18.C18_trip_clears_metrics
#print axioms C18.C18_effects_once
