import OxyModel.Props.C16
#print axioms C16.C16_classify_total
#print axioms C16.C16_classify_kinds
#print axioms C16.C16_failure_modes
#print axioms C16.C16_relay_identity
#print axioms C16.C16_listener_paired
#print axioms C16.C16_listener_sequence
#print axioms C16.C16_abort_after_head
#print axioms C16.C16_complete_transfer
