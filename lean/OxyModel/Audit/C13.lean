import OxyModel.Props.C13
#print axioms C13.C13_reject_no_debit
#print axioms C13.C13_admit_debits_all
#print axioms C13.C13_reject_no_debit_limiter
#print axioms C13.C13_flood_free
#print axioms C13.C13_flood_free_same_instant
#print axioms C13.C13_flood_outcome_counterexample
#print axioms C13.C13_delay_sufficient
#print axioms C13.C13_delay_bounds
#print axioms C13.C13_reachable
#print axioms C13.C13_delay_sufficient_limiter
#print axioms C13.C13_idle_full_burst
#print axioms C13.C13_idle_admits
#print axioms C13.C13_idle_full_burst_limiter
#print axioms C13.C13_over_burst_is_error
#print axioms C13.C13_over_burst_is_error_limiter
#print axioms C13.C13_refusal_loss_bound
