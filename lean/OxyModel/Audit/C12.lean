import OxyModel.Props.C12
#print axioms C12.C12_ramp_bound
#print axioms C12.C12_refuse_only_if
#print axioms C12.C12_pass_only_below
#print axioms C12.C12_first_after_is_standby
#print axioms C12.C12_retrip
#print axioms C12.C12_retrip_fused
