import OxyModel.Props.C01
#print axioms C01.C01_window
#print axioms C01.C01_selects_positive
#print axioms C01.C01_zero_never
#print axioms C01.C01_share
#print axioms C01.C01_all_zero_error
#print axioms C01.C01_empty_error
#print axioms C01.C01_change_resets
#print axioms C01.C01_after_any_history
#print axioms C01.C01_concurrent
#print axioms C01.C01_upsert_options
#print axioms C01.C01_failed_upsert_weight
#print axioms C01.C01_nextFrom_eq_next
