import OxyModel.Props.C06
#print axioms C06.C06_body_exact
#print axioms C06.C06_attempts_identical
#print axioms C06.C06_headers_exact
