import OxyModel.Props.C17
#print axioms C17.C17_constructor
#print axioms C17.C17_exact
#print axioms C17.C17_lower
#print axioms C17.C17_upper
#print axioms C17.C17_ages_out
#print axioms C17.C17_ratio
#print axioms C17.C17_ratio_empty
#print axioms C17.C17_clone_independent
