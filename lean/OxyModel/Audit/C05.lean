import OxyModel.Props.C05
#print axioms C05.C05_tripped_shields
#print axioms C05.C05_tripped_shields_all
#print axioms C05.C05_standby_passes
#print axioms C05.C05_standby_until_trip
#print axioms C05.C05_edges
#print axioms C05.C05_tripped_until
