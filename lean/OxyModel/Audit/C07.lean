import OxyModel.Props.C07
#print axioms C07.C07_final_only
#print axioms C07.C07_implicit_200
#print axioms C07.C07_empty_body_empty
#print axioms C07.C07_once_without_predicate
#print axioms C07.C07_retry_iff_predicate
#print axioms C07.C07_eval_standard
#print axioms C07.C07_at_most_11
#print axioms C07.C07_body_dropped_kinds
#print axioms C07.C07_panic_nothing_written
