import OxyModel.Props.C19
#print axioms C19.C19_client_ip
#print axioms C19.C19_client_ip_general
#print axioms C19.C19_same_token_iff_same_address
#print axioms C19.C19_host
#print axioms C19.C19_host_ignores_url
#print axioms C19.C19_header
#print axioms C19.C19_header_value
#print axioms C19.C19_header_absent
#print axioms C19.C19_amount_one
#print axioms C19.C19_unsupported_refused
#print axioms C19.C19_split_exact
#print axioms C19.C19_malformed_is_error
