import OxyModel.Props.C02
#print axioms C02.C02_refines_set
#print axioms C02.C02_refines_set_rebalancer
#print axioms C02.C02_selected_is_member
#print axioms C02.C02_removed_never_selected
#print axioms C02.C02_added_within_rotation
#print axioms C02.C02_failed_add_noop
#print axioms C02.C02_remove_unknown_noop
#print axioms C02.C02_empty_is_error
#print axioms C02.C02_zero_is_error_partial
#print axioms C02.C02_zero_is_error_counterexample
#print axioms C02.C02_handout_fresh
#print axioms C02.C02_any_rewrite_is_modelled
#print axioms C02.C02_downstream_mutation_noop
