/-!
# Model of the latency histogram behind `LatencyAtQuantileMS` (core Lean only)

Follows, branch by branch,

* `github.com/HdrHistogram/hdrhistogram-go v1.1.2`, `hdr.go`: `New`, `RecordValues` / `countsIndexFor` /
  `getBucketIndex` / `getSubBucketIdx` / `countsIndex`, `Merge` (through `rIterator`), `Reset`,
  `ValueAtPercentile` / `getValueFromIdxUpToCount`, `lowestEquivalentValue`, `highestEquivalentValue`,
  `sizeOfEquivalentValueRangeGivenBucketIdx`;
* `/repo/memmetrics/histogram.go`: `RollingHDRHistogram` (`getHist`, `rotate`, `RecordLatencies`, `Merged`,
  `Reset`) and `HDRHistogram.RecordLatencies` / `LatencyAtQuantile`;
* `/repo/memmetrics/roundtrip.go`: `recordLatency`, `LatencyHistogram`, the constants `histMin = 1`,
  `histMax = 3600000000`, `histSignificantFigures = 2`, `histBuckets = 6`, `histPeriod = 10 s`;
* `/repo/cbreaker/predicates.go`: `latencyAtQuantile`.

Conventions: Go `int64`/`int32` → `Nat` (latencies are never negative: the clock does not go back); time is
`Nat` nanoseconds since Go's zero `time.Time`, `lastRoll = 0` is the zero `Time` of a fresh rolling histogram.

**The one float step.**  `ValueAtPercentile` computes
`countAtPercentile := int64(((percentile / 100) * float64(totalCount)) + 0.5)` in IEEE doubles.  This file
does not contain floats: every function that needs that count takes it as the argument `k : Nat`
(or, one level up, a function `kf num den total` returning it for the quantile literal `num/den`).  The driver
passes the `Float` computation (same operations, same order); the theorems use the exact rational
`countAtQ num den total = ⌊num·total/(den·100) + 1/2⌋`.  **That the two agree is assumed, not modelled.**
They can differ only when `num·total/(den·100)` lies within float rounding of a half-integer, and they do at some exact
ties: for `q = 33.3`, `total = 500` the real number is `166.5 + 0.5 = 167` while the doubles give
`0.333·500 = 166.49999999999997`, count 166 (likewise `66.6` at `total = 250`, `99.99` at `total = 5000`); over the
quantile literals of the generator and every `total ≤ 10^5` these exact ties are the only disagreements.
-/
namespace Hist

/-! ### the constants `hdrhistogram.New(1, 3600000000, 2)` computes -/

/-- `floor(log2(lowestDiscernibleValue = 1))` -/
def unitMagnitude : Nat := 0
/-- `ceil(log2(2 · 10^2)) - 1` -/
def subBucketHalfCountMagnitude : Nat := 7
/-- `2^(subBucketHalfCountMagnitude + 1)` -/
def subBucketCount : Nat := 256
def subBucketHalfCount : Nat := 128
/-- `(subBucketCount - 1) << unitMagnitude` -/
def subBucketMask : Nat := 255
/-- `getBucketsNeededToCoverValue(256, 3600000000)` -/
def bucketCount : Nat := 25
/-- `(bucketCount + 1) * (subBucketCount / 2)` -/
def countsLen : Nat := 3328

/-- `getBucketsNeededToCoverValue` (the `MaxInt64 / 2` overflow guard cannot fire below 2^62) -/
def bucketsNeeded (maxValue : Nat) : Nat → Nat → Nat → Nat
  | 0, _, n => n
  | fuel + 1, smallestUntrackable, n =>
    if smallestUntrackable < maxValue then bucketsNeeded maxValue fuel (smallestUntrackable <<< 1) (n + 1) else n

example : bucketsNeeded 3600000000 64 (subBucketCount <<< unitMagnitude) 1 = bucketCount := by decide
example : (bucketCount + 1) * (subBucketCount / 2) = countsLen := by decide
example : subBucketCount = 2 ^ (subBucketHalfCountMagnitude + 1) ∧ subBucketHalfCount = subBucketCount / 2 ∧
    subBucketMask = (subBucketCount - 1) <<< unitMagnitude := by decide

/-! ### indexing -/

/-- `64 - bits.LeadingZeros64(x)`: the bit length of `x` -/
def bitLen (x : Nat) : Nat := if x = 0 then 0 else Nat.log2 x + 1

/-- `getBucketIndex`: `pow2Ceiling := 64 - LeadingZeros64(v | subBucketMask)`;
    `pow2Ceiling - unitMagnitude - (subBucketHalfCountMagnitude + 1)` -/
def bucketIdx (v : Nat) : Nat :=
  bitLen (v ||| subBucketMask) - unitMagnitude - (subBucketHalfCountMagnitude + 1)

/-- `getSubBucketIdx(v, idx)`: `v >> (idx + unitMagnitude)` -/
def subIdx (v idx : Nat) : Nat := v >>> (idx + unitMagnitude)

/-- `getBucketBaseIdx`: `(bucketIdx + 1) << subBucketHalfCountMagnitude` -/
def bucketBaseIdx (b : Nat) : Nat := (b + 1) <<< subBucketHalfCountMagnitude

/-- `countsIndex(bucketIdx, subBucketIdx)`: `getBucketBaseIdx(bucketIdx) + subBucketIdx - subBucketHalfCount`
    (never negative: the base index is at least `subBucketHalfCount`) -/
def countsIndex (b s : Nat) : Nat := bucketBaseIdx b + s - subBucketHalfCount

/-- `countsIndexFor(v)` -/
def countsIndexFor (v : Nat) : Nat :=
  let b := bucketIdx v
  let s := subIdx v b
  countsIndex b s

/-- `valueFromIndex(bucketIdx, subBucketIdx)`: `subBucketIdx << (bucketIdx + unitMagnitude)` -/
def valueFromIndex (b s : Nat) : Nat := s <<< (b + unitMagnitude)

/-- `lowestEquivalentValue(v)` -/
def lowestEq (v : Nat) : Nat :=
  let b := bucketIdx v
  let s := subIdx v b
  valueFromIndex b s

/-- `sizeOfEquivalentValueRangeGivenBucketIdx(v, bucketIdx)` -/
def sizeOfRange (v b : Nat) : Nat :=
  let s := subIdx v b
  let adjustedBucket := if s ≥ subBucketCount then b + 1 else b
  1 <<< (unitMagnitude + adjustedBucket)

/-- `nextNonEquivalentValue(v)` -/
def nextNonEq (v : Nat) : Nat :=
  let b := bucketIdx v
  lowestEq v + sizeOfRange v b

/-- `highestEquivalentValue(v)`: `nextNonEquivalentValue(v) - 1` -/
def highestEq (v : Nat) : Nat := nextNonEq v - 1

/-! ### one histogram -/

/-- `hdrhistogram.Histogram`: `counts` (length `countsLen`) and `totalCount` -/
structure H where
  counts : Array Nat
  total : Nat
deriving Repr, DecidableEq

/-- `New(1, 3600000000, 2)` -/
def H.new : H := ⟨Array.replicate countsLen 0, 0⟩

/-- `RecordValues(v, n)`: `idx := countsIndexFor(v); if idx < 0 || countsLen <= idx { return error }` — every
    caller on this path ignores the error, the value is dropped; else `counts[idx] += n; totalCount += n` -/
def H.recordValues (h : H) (v n : Nat) : H :=
  let idx := countsIndexFor v
  if countsLen ≤ idx then h
  else { counts := h.counts.modify idx (· + n), total := h.total + n }

/-- `RecordValue(v)` -/
def H.record (h : H) (v : Nat) : H := h.recordValues v 1

/-- `Reset()`: `totalCount = 0; for i := range counts { counts[i] = 0 }` -/
def H.reset (h : H) : H := ⟨h.counts.map fun _ => 0, 0⟩

/-- "increment bucket" of the iterators and of `getValueFromIdxUpToCount`, on the pair
    `(bucketIdx, subBucketIdx + 1)` (the Go loops start at `subBucketIdx = -1`, here `sNext = 0`):
    `subBucketIdx++; if subBucketIdx >= subBucketCount { subBucketIdx = subBucketHalfCount; bucketIdx++ }`;
    the result is the new `(bucketIdx, subBucketIdx)` -/
@[inline] def advance (b sNext : Nat) : Nat × Nat :=
  if sNext ≥ subBucketCount then (b + 1, subBucketHalfCount) else (b, sNext)

/-- the loop of `getValueFromIdxUpToCount(countAtPercentile = k)`; arguments: iterations left, `bucketIdx`,
    `subBucketIdx + 1`, `countToIdx`, `valueFromIdx`.  `break` when `countToIdx >= k`.  The Go loop has **no
    bounds check**: when `k > totalCount` it walks past the end of `counts` and panics (index out of range);
    the model stops after `countsLen` iterations and returns the value of the last index.  This cannot
    happen for a percentile `≤ 100` (the code clamps it): then `k ≤ totalCount` (`Hist.countAtQ_le` for the
    rational count) and, `totalCount` being the sum of `counts`, the break comes inside the array. -/
def upToLoop (counts : Array Nat) (k : Nat) : Nat → Nat → Nat → Nat → Nat → Nat
  | 0, _, _, _, value => value
  | fuel + 1, b, sNext, countTo, value =>
    if countTo ≥ k then value
    else
      let p := advance b sNext
      upToLoop counts k fuel p.1 (p.2 + 1)
        (countTo + counts.getD (bucketBaseIdx p.1 + p.2 - subBucketHalfCount) 0)   -- getCountAtIndexGivenBucketBaseIdx
        (valueFromIndex p.1 p.2)

/-- `getValueFromIdxUpToCount(k)` -/
def H.valueUpToCount (h : H) (k : Nat) : Nat := upToLoop h.counts k countsLen 0 0 0 0

/-- `ValueAtPercentile(percentile)` after the float step: `k` is `countAtPercentile`, `isZeroQ` is
    `percentile == 0.0`:  `if percentile == 0.0 { return lowestEquivalentValue(v) }; return highestEquivalentValue(v)` -/
def H.valueAtCount (h : H) (k : Nat) (isZeroQ : Bool) : Nat :=
  let v := h.valueUpToCount k
  if isZeroQ then lowestEq v else highestEq v

/-- the loop of `Merge(from)`: `i := from.rIterator(); for i.next() { h.RecordValues(i.valueFromIdx, i.countAtIdx) }`.
    `iterator.nextCountAtIdx(limit = from.totalCount)`: `if countToIdx >= limit { return false }`, increment
    bucket, `if bucketIdx >= bucketCount { return false }`, read the count; `rIterator.next` skips zero counts.
    Arguments: iterations left, `bucketIdx`, `subBucketIdx + 1`, `countToIdx`, the receiver. -/
def mergeLoop (src : H) : Nat → Nat → Nat → Nat → H → H
  | 0, _, _, _, h => h
  | fuel + 1, b, sNext, countTo, h =>
    if countTo ≥ src.total then h
    else
      let p := advance b sNext
      if p.1 ≥ bucketCount then h
      else
        let c := src.counts.getD (countsIndex p.1 p.2) 0        -- getCountAtIndex
        mergeLoop src fuel p.1 (p.2 + 1) (countTo + c)
          (if c ≠ 0 then h.recordValues (valueFromIndex p.1 p.2) c else h)

/-- `h.Merge(src)` (the dropped count is ignored by the caller); `countsLen + 1` iterations reach
    `bucketIdx = bucketCount`, where the iterator stops by itself -/
def H.merge (h src : H) : H := mergeLoop src (countsLen + 1) 0 0 0 h

/-! ### the exact-rational reading of the float step -/

/-- `⌊p/100 · total + 1/2⌋` for the percentile `p = num/den` clamped to 100 (`if percentile > 100 { percentile = 100 }`):
    the real-number value of `int64(((percentile / 100) * float64(totalCount)) + 0.5)` -/
def countAtQ (num den total : Nat) : Nat :=
  if num > 100 * den then (2 * 100 * total + 100) / 200
  else (2 * num * total + 100 * den) / (200 * den)

/-! ### `memmetrics.RollingHDRHistogram` -/

structure Rolling where
  idx      : Nat
  lastRoll : Nat          -- ns since Go's zero time; 0 = the zero `Time`
  period   : Nat
  buckets  : List H
deriving Repr, DecidableEq

/-- `histPeriod = 10 * clock.Second`, `histBuckets = 6` -/
def histPeriod : Nat := 10 * 1000000000
def histBuckets : Nat := 6

/-- `NewRollingHDRHistogram(histMin, histMax, histSignificantFigures, histPeriod, histBuckets)`: `idx = 0`,
    `lastRoll` the zero `Time` -/
def Rolling.new : Rolling := ⟨0, 0, histPeriod, List.replicate histBuckets H.new⟩

/-- `rotate()`: `r.idx = (r.idx + 1) % len(r.buckets); r.buckets[r.idx].Reset()` -/
def Rolling.rotate (r : Rolling) : Rolling :=
  let i := (r.idx + 1) % r.buckets.length
  { r with idx := i, buckets := r.buckets.modify i H.reset }

/-- `getHist()`: `if clock.Now().UTC().Sub(r.lastRoll) >= r.period { r.rotate(); r.lastRoll = clock.Now().UTC() }`;
    the histogram it returns is `buckets[idx]` of the result.  **One** rotation however long the gap.
    (`Sub` saturates at ±292 years: against the zero `Time` it is the largest duration, `>= period` like
    `now - 0` here; a clock reading before `lastRoll` gives a negative duration, here 0: no rotation.) -/
def Rolling.getHist (r : Rolling) (now : Nat) : Rolling :=
  if now - r.lastRoll ≥ r.period then { r.rotate with lastRoll := now } else r

/-- `RTMetrics.recordLatency(d)` = `histogram.RecordLatencies(d, 1)` = `getHist().RecordValues(int64(d / clock.Microsecond), 1)` -/
def Rolling.recordLatency (r : Rolling) (now dNs : Nat) : Rolling :=
  let r1 := r.getHist now
  { r1 with buckets := r1.buckets.modify r1.idx fun h => h.recordValues (dNs / 1000) 1 }

/-- `Merged()`: a new histogram into which every bucket is merged, in slice order -/
def Rolling.merged (r : Rolling) : H := r.buckets.foldl H.merge H.new

/-- `Reset()`: `r.idx = 0; r.lastRoll = clock.Now().UTC(); for _, b := range r.buckets { b.Reset() }` -/
def Rolling.reset (r : Rolling) (now : Nat) : Rolling :=
  { r with idx := 0, lastRoll := now, buckets := r.buckets.map H.reset }

/-- `latencyAtQuantile(quantile)` of `predicates.go` on the metrics' histogram:
    `h := c.metrics.LatencyHistogram()` (`= Merged()`); `int(h.LatencyAtQuantile(q) / clock.Millisecond)` with
    `LatencyAtQuantile(q) = time.Duration(h.ValueAtQuantile(q)) * clock.Microsecond`.
    `kf num den total` supplies `countAtPercentile` for the literal `q = num/den` (the float step). -/
def latencyOfMerged (kf : Nat → Nat → Nat → Nat) (m : H) (num den : Nat) : Nat :=
  let v := m.valueAtCount (kf num den m.total) (decide (num = 0))
  v * 1000 / 1000000

def latencyAtQuantileMS (kf : Nat → Nat → Nat → Nat) (r : Rolling) (num den : Nat) : Nat :=
  latencyOfMerged kf r.merged num den

end Hist
