/-!
# Model of `roundrobin/rr.go` — the weighted round-robin iterator (core Lean only)

Follows `RoundRobin.nextServer` branch by branch.  `idx1` is the Go field `index` plus one
(so the reset value `-1` is `0`, and `(index+1) % n` is `idx1 % n`); `cw` is `currentWeight`,
with `cw -= gcd; if cw <= 0 { cw = max }` written as `if cw ≤ g then max else cw - g`
(a bijective re-encoding that keeps the model in `Nat`).
-/
namespace RR

/-- iterator: `idx1` = Go `index`+1, `cw` = Go `currentWeight` -/
structure It where
  idx1 : Nat
  cw   : Nat
deriving Repr, DecidableEq

def It.reset : It := ⟨0, 0⟩

def gcdW (ws : List Nat) : Nat := ws.foldl Nat.gcd 0
def maxW (ws : List Nat) : Nat := ws.foldl max 0

inductive Res where
  | sel (i : Nat)
  | errNoServers
  | errAllZero
  | outOfFuel
deriving Repr, DecidableEq

/-- one iteration's iterator update (the part of the loop body before the weight test);
    `none` = the all-zero error return (iterator already mutated to the carried value) -/
def advance (n g mx : Nat) (s : It) : It :=
  let idx := s.idx1 % n
  if idx = 0 then
    if s.cw ≤ g then ⟨idx + 1, mx⟩ else ⟨idx + 1, s.cw - g⟩
  else ⟨idx + 1, s.cw⟩

def loop (ws : List Nat) (g mx : Nat) : Nat → It → Res × It
  | 0, s => (.outOfFuel, s)
  | fuel + 1, s =>
    let s' := advance ws.length g mx s
    if s'.idx1 = 1 ∧ s'.cw = 0 then (.errAllZero, s')
    else if ws.getD (s'.idx1 - 1) 0 ≥ s'.cw then (.sel (s'.idx1 - 1), s')
    else loop ws g mx fuel s'

def next (ws : List Nat) (s : It) : Res × It :=
  if ws.length = 0 then (.errNoServers, s)
  else
    let g := gcdW ws
    let mx := maxW ws
    -- `if maxWeight == 0 { return error }` *before* the iterator is touched
    if mx = 0 then (.errAllZero, s)
    else loop ws g mx (ws.length * (mx / g) + ws.length + 1) s

/-- The same `for` loop from an *arbitrary* iterator position.  The fuel of `next` is calibrated for positions reached from a
reset (`C01_fuel`); after a failed multi-option `UpsertServer` (`Pool.upsertOpts`) the level `cw` may lie far above the new
maximum and the Go loop simply keeps sweeping until it has come down (`cw/g` extra sweeps, all under the mutex).  The loop has no
memory besides the iterator, so restarting `next` on the iterator it returned continues it exactly. -/
def nextFrom (ws : List Nat) : Nat → It → Res × It
  | 0, s => (.outOfFuel, s)
  | k + 1, s =>
    match next ws s with
    | (.outOfFuel, s') => nextFrom ws k s'
    | r => r

/-- results of `k` consecutive calls -/
def run (ws : List Nat) : Nat → It → List Res
  | 0, _ => []
  | k + 1, s => let r := next ws s; r.1 :: run ws k r.2

/-- iterator state after `j` calls -/
def after (ws : List Nat) : Nat → It → It
  | 0, s => s
  | j + 1, s => after ws j (next ws s).2

/-! ## The pool: `UpsertServer`, `RemoveServer`, `ServerWeight`, `Servers`, `NextServer`

A server is identified by its key (what `sameURL` compares: scheme, host, path — the key type is
left abstract here, `Model/Pool` instantiates it).  Every successful change resets the iterator. -/

structure Pool (κ : Type) where
  keys : List κ
  ws   : List Nat
  it   : It
deriving Repr

namespace Pool
variable {κ : Type} [DecidableEq κ]

def empty : Pool κ := ⟨[], [], It.reset⟩

def find (p : Pool κ) (k : κ) : Option Nat := p.keys.idxOf? k

/-- `UpsertServer(u, Weight(w))` (`w = none`: no option given).  A *new* server with weight 0
    gets `defaultWeight = 1`; an existing one keeps the 0. -/
def upsert (p : Pool κ) (k : κ) (w : Option Nat) : Pool κ :=
  match p.find k with
  | some i =>
    match w with
    | some w => { p with ws := p.ws.set i w, it := It.reset }
    | none => { p with it := It.reset }
  | none =>
    let w' := match w with | some w => if w = 0 then 1 else w | none => 1
    { keys := p.keys ++ [k], ws := p.ws ++ [w'], it := It.reset }

/-- the `Weight` options of one `UpsertServer` call applied in order to a server of weight `w`: `Weight(x)` with `x < 0` fails,
**after** the options before it have been applied (`roundrobin/options.go`: `if w < 0 { return error }; s.weight = w`) -/
def applyWeights (w : Nat) : List Int → Nat × Bool
  | [] => (w, true)
  | x :: xs => if x < 0 then (w, false) else applyWeights x.toNat xs

/-- `UpsertServer(u, Weight(x₁), …, Weight(xₙ))` with any number of options (`rr.go:200-222`).  Existing server: the options
write into the live record one by one; when one fails the call returns the error **before** `resetState()`, so the weights
written so far stay and the iterator keeps its position.  New server: the options write into a fresh record that is only appended
(weight 0 → `defaultWeight`) when all succeeded.  The `Bool` is "no error". -/
def upsertOpts (p : Pool κ) (k : κ) (xs : List Int) : Pool κ × Bool :=
  match p.find k with
  | some i =>
    let r := applyWeights (p.ws.getD i 0) xs
    if r.2 then ({ p with ws := p.ws.set i r.1, it := It.reset }, true)
    else ({ p with ws := p.ws.set i r.1 }, false)
  | none =>
    let r := applyWeights 0 xs
    if r.2 then ({ keys := p.keys ++ [k], ws := p.ws ++ [if r.1 = 0 then 1 else r.1], it := It.reset }, true)
    else (p, false)

/-- `RemoveServer`: `none` = "server not found", pool untouched -/
def remove (p : Pool κ) (k : κ) : Option (Pool κ) :=
  match p.find k with
  | some i => some { keys := p.keys.eraseIdx i, ws := p.ws.eraseIdx i, it := It.reset }
  | none => none

def weight (p : Pool κ) (k : κ) : Option Nat :=
  match p.find k with
  | some i => some (p.ws.getD i 0)
  | none => none

def nextServer (p : Pool κ) : Res × Pool κ :=
  let r := next p.ws p.it
  (r.1, { p with it := r.2 })

/-- `NextServer` from whatever position the iterator is in (each restart of `next` completes at least one sweep, which lowers
`cw` by `g ≥ 1`, so `cw + 2` restarts suffice) -/
def nextServerFrom (p : Pool κ) : Res × Pool κ :=
  let r := nextFrom p.ws (p.it.cw + 2) p.it
  (r.1, { p with it := r.2 })

/-- administration and selection calls, as one history -/
inductive Op (κ : Type) where
  | upsert (k : κ) (w : Option Nat)
  | remove (k : κ)
  | next
deriving Repr

/-- one call; the second component is the selection result of a `next` -/
def step (p : Pool κ) : Op κ → Pool κ × Option Res
  | .upsert k w => (p.upsert k w, none)
  | .remove k => ((p.remove k).getD p, none)
  | .next => let r := p.nextServer; (r.2, some r.1)

def applyOps (p : Pool κ) (ops : List (Op κ)) : Pool κ := ops.foldl (fun p o => (p.step o).1) p

/-- results of `k` consecutive `NextServer` calls on the pool -/
def nexts (p : Pool κ) (k : Nat) : List Res := run p.ws k p.it

/-- `k` calls issued by concurrent callers: `sched` names the caller whose call takes the
    mutex next; each call is one atomic step (the body of `nextServer` runs under `r.mutex`). -/
def runSched {τ : Type} (ws : List Nat) : List τ → It → List (τ × Res)
  | [], _ => []
  | t :: sched, s => let r := next ws s; (t, r.1) :: runSched ws sched r.2

end Pool

end RR

