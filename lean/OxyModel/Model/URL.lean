/-!
# The part of Go's `net/url` that decides what request target the forwarder sends (C08)

Byte strings are `List Char` (every char stands for one byte; the driver only produces chars < 256).
Followed function by function from `/usr/lib/go-1.23/src/net/url/url.go`, path mode (`encodePath`) only:
`ishex`/`unhex`, `unescape`, `shouldEscape`, `escape`, `validEncoded`, `setPath`, `EscapedPath`,
`RequestURI`, and `parse(rawURL, viaRequest = true)` for origin-form targets (first byte `/`, so `getScheme`
returns no scheme and no authority is parsed) and for absolute-form targets with a simple authority
(`getScheme`, query split, `//authority`, `setPath`). `*`, opaque forms, userinfo and bracketed IP literals
are not modelled (`parseRequestURI` returns `none` on them, like on a malformed escape).
-/
namespace FwdURL

abbrev Bytes := List Char

def ishex (c : Char) : Bool :=
  ('0' ≤ c && c ≤ '9') || ('a' ≤ c && c ≤ 'f') || ('A' ≤ c && c ≤ 'F')

def unhex (c : Char) : Nat :=
  if '0' ≤ c && c ≤ '9' then c.toNat - '0'.toNat
  else if 'a' ≤ c && c ≤ 'f' then c.toNat - 'a'.toNat + 10
  else if 'A' ≤ c && c ≤ 'F' then c.toNat - 'A'.toNat + 10
  else 0

/-- `unescape(s, encodePath)`: `%XY` ↦ byte, `+` stays `+`; `none` = `EscapeError`. -/
def unescape : Bytes → Option Bytes
  | [] => some []
  | c :: rest =>
    if c = '%' then
      match rest with
      | a :: b :: rest' =>
        if ishex a && ishex b then (unescape rest').map (Char.ofNat (unhex a * 16 + unhex b) :: ·) else none
      | _ => none
    else (unescape rest).map (c :: ·)

def isAlnum (c : Char) : Bool :=
  ('a' ≤ c && c ≤ 'z') || ('A' ≤ c && c ≤ 'Z') || ('0' ≤ c && c ≤ '9')

/-- `shouldEscape(c, encodePath)` -/
def shouldEscape (c : Char) : Bool :=
  if isAlnum c then false
  else if c = '-' || c = '_' || c = '.' || c = '~' then false
  else if c = '$' || c = '&' || c = '+' || c = ',' || c = '/' || c = ':' || c = ';' || c = '=' || c = '?' || c = '@' then
    c = '?'
  else true

def upperhex (n : Nat) : Char :=
  if n < 10 then Char.ofNat ('0'.toNat + n) else Char.ofNat ('A'.toNat + (n - 10))

/-- `escape(s, encodePath)` -/
def escape : Bytes → Bytes
  | [] => []
  | c :: rest =>
    if shouldEscape c then '%' :: upperhex (c.toNat / 16) :: upperhex (c.toNat % 16) :: escape rest
    else c :: escape rest

/-- `validEncoded(s, encodePath)` -/
def validEncodedChar (c : Char) : Bool :=
  if c = '!' || c = '$' || c = '&' || c = '\'' || c = '(' || c = ')' || c = '*' || c = '+' || c = ','
      || c = ';' || c = '=' || c = ':' || c = '@' then true
  else if c = '[' || c = ']' then true
  else if c = '%' then true
  else !shouldEscape c

def validEncoded (s : Bytes) : Bool := s.all validEncodedChar

/-- the fields of `url.URL` the forwarder reads or writes -/
structure URL where
  scheme : String := ""
  host : String := ""
  path : Bytes := []
  rawPath : Bytes := []
  forceQuery : Bool := false
  rawQuery : Bytes := []
  deriving Repr, DecidableEq

/-- `(*URL).setPath`: `none` when unescaping fails -/
def setPath (u : URL) (p : Bytes) : Option URL :=
  match unescape p with
  | none => none
  | some path =>
    if p = escape path then some { u with path := path, rawPath := [] }
    else some { u with path := path, rawPath := p }

/-- `(*URL).EscapedPath` -/
def escapedPath (u : URL) : Bytes :=
  if u.rawPath ≠ [] && validEncoded u.rawPath && unescape u.rawPath == some u.path then u.rawPath
  else if u.path = ['*'] then ['*']
  else escape u.path

/-- `(*URL).RequestURI` (no `Opaque`) -/
def requestURI (u : URL) : Bytes :=
  let r := escapedPath u
  let r := if r = [] then ['/'] else r
  if u.forceQuery || u.rawQuery ≠ [] then r ++ '?' :: u.rawQuery else r

def containsCTL (s : Bytes) : Bool := s.any fun c => c.toNat < 0x20 || c.toNat = 0x7f

/-- `strings.Cut(s, "?")` -/
def cutQ : Bytes → Bytes × Option Bytes
  | [] => ([], none)
  | c :: rest =>
    if c = '?' then ([], some rest)
    else let r := cutQ rest; (c :: r.1, r.2)

/-! ### absolute-form targets (`scheme://authority[/path][?query]`, RFC 7230 §5.3.2) -/

def isAlpha (c : Char) : Bool := ('a' ≤ c && c ≤ 'z') || ('A' ≤ c && c ≤ 'Z')
def isDigit (c : Char) : Bool := '0' ≤ c && c ≤ '9'

/-- result of `getScheme` -/
inductive SchemeRes
  | noScheme                       -- `return "", rawURL, nil`
  | err                            -- "missing protocol scheme"
  | found (scheme rest : Bytes)    -- `return rawURL[:i], rawURL[i+1:], nil`
  deriving DecidableEq, Repr

/-- `getScheme`, scanning from position `i`; `first` says `i == 0` -/
def scanScheme (first : Bool) : Bytes → SchemeRes
  | [] => .noScheme
  | c :: r =>
    if isAlpha c then
      match scanScheme false r with
      | .found s rest => .found (c :: s) rest
      | x => x
    else if isDigit c || c = '+' || c = '-' || c = '.' then
      if first then .noScheme
      else match scanScheme false r with
        | .found s rest => .found (c :: s) rest
        | x => x
    else if c = ':' then
      if first then .err else .found [] r
    else .noScheme

/-- the query split of `url.parse`: (rest, ForceQuery, RawQuery) -/
def splitQuery (rest : Bytes) : Bytes × Bool × Bytes :=
  if rest.getLast? = some '?' && rest.count '?' = 1 then (rest.dropLast, true, [])
  else let c := cutQ rest; (c.1, false, c.2.getD [])

/-- authorities the model covers: a reg-name of letters, digits, `.`, `-` (possibly empty) with an optional
`:digits` port — what `parseAuthority`/`parseHost` accept without any rewriting. Userinfo, IP literals in
brackets and escapes are not modelled (`parseRequestURI` returns `none` on them). -/
def simpleAuthority (a : Bytes) : Bool :=
  (a.takeWhile (· ≠ ':')).all (fun c => isAlnum c || c = '.' || c = '-') &&
  ((a.dropWhile (· ≠ ':')).drop 1).all isDigit

/-- `url.ParseRequestURI` on an origin-form or absolute-form target -/
def parseRequestURI (t : Bytes) : Option URL :=
  if containsCTL t then none
  else if t.head? = some '/' then
    -- origin-form: `getScheme` finds no scheme, no authority is parsed
    -- `strings.HasSuffix(rest, "?") && strings.Count(rest, "?") == 1`
    if t.getLast? = some '?' && t.count '?' = 1 then
      setPath { forceQuery := true } t.dropLast
    else
      let c := cutQ t
      setPath { rawQuery := c.2.getD [] } c.1
  else
    match scanScheme true t with
    | .found scheme rest =>
      let sq := splitQuery rest
      match sq.1 with
      | '/' :: '/' :: r2 =>
        let auth := r2.takeWhile (· ≠ '/')
        if simpleAuthority auth then
          setPath { scheme := String.ofList (scheme.map Char.toLower), host := String.ofList auth,
                    forceQuery := sq.2.1, rawQuery := sq.2.2 } (r2.dropWhile (· ≠ '/'))
        else none
      | _ => none   -- opaque / rootless forms: not modelled
    | _ => none     -- "invalid URI for request" (`*` is not modelled)

/-! ### `httputil.cleanQueryParams` (runs on the outgoing query when the incoming request's form was parsed) -/

/-- `unescape(s, encodeQueryComponent)`: `%XY` ↦ byte, `+` ↦ space -/
def queryUnescape : Bytes → Option Bytes
  | [] => some []
  | c :: rest =>
    if c = '%' then
      match rest with
      | a :: b :: rest' =>
        if ishex a && ishex b then (queryUnescape rest').map (Char.ofNat (unhex a * 16 + unhex b) :: ·) else none
      | _ => none
    else if c = '+' then (queryUnescape rest).map (' ' :: ·)
    else (queryUnescape rest).map (c :: ·)

/-- `shouldEscape(c, encodeQueryComponent)` -/
def shouldEscapeQ (c : Char) : Bool := !(isAlnum c || c = '-' || c = '_' || c = '.' || c = '~')

/-- `url.QueryEscape` -/
def queryEscape : Bytes → Bytes
  | [] => []
  | c :: rest =>
    if c = ' ' then '+' :: queryEscape rest
    else if shouldEscapeQ c then '%' :: upperhex (c.toNat / 16) :: upperhex (c.toNat % 16) :: queryEscape rest
    else c :: queryEscape rest

/-- `strings.Split(s, sep)` for a one-byte separator -/
def splitByte (sep : Char) : Bytes → List Bytes
  | [] => [[]]
  | c :: r =>
    match splitByte sep r with
    | [] => [[]]  -- unreachable
    | x :: xs => if c = sep then [] :: x :: xs else (c :: x) :: xs

/-- `strings.Cut(s, "=")`: before, after ("" when there is no `=`) -/
def cutEq : Bytes → Bytes × Bytes
  | [] => ([], [])
  | c :: r => if c = '=' then ([], r) else let x := cutEq r; (c :: x.1, x.2)

/-- `m[key] = append(m[key], value)` on an insertion-ordered association list -/
def valuesAdd (m : List (Bytes × List Bytes)) (k v : Bytes) : List (Bytes × List Bytes) :=
  if m.any (·.1 = k) then m.map fun e => if e.1 = k then (e.1, e.2 ++ [v]) else e else m ++ [(k, [v])]

/-- `url.ParseQuery` (errors ignored, as `cleanQueryParams` does): pairs with a `;`, empty pairs and pairs with a
malformed escape are dropped -/
def parseQuery (q : Bytes) : List (Bytes × List Bytes) :=
  (splitByte '&' q).foldl (fun m pair =>
    if pair.contains ';' then m
    else if pair = [] then m
    else
      let kv := cutEq pair
      match queryUnescape kv.1, queryUnescape kv.2 with
      | some k, some v => valuesAdd m k v
      | _, _ => m) []

/-- byte-wise `a ≤ b` (Go string order) -/
def bytesLE : Bytes → Bytes → Bool
  | [], _ => true
  | _ :: _, [] => false
  | a :: as, b :: bs => if a.toNat < b.toNat then true else if b.toNat < a.toNat then false else bytesLE as bs

/-- `Values.Encode`: keys sorted, `QueryEscape(k)=QueryEscape(v)` joined with `&` -/
def encodeValues (m : List (Bytes × List Bytes)) : Bytes :=
  let sorted := m.mergeSort fun a b => bytesLE a.1 b.1
  let pairs := sorted.flatMap fun e => e.2.map fun v => queryEscape e.1 ++ '=' :: queryEscape v
  List.intercalate ['&'] pairs

/-- does `cleanQueryParams` re-encode? (a `;`, or a `%` not followed by two hex digits) -/
def needsReencode : Bytes → Bool
  | [] => false
  | c :: rest =>
    if c = ';' then true
    else if c = '%' then
      match rest with
      | a :: b :: rest' => if ishex a && ishex b then needsReencode rest' else true
      | _ => true
    else needsReencode rest

/-- `httputil.cleanQueryParams` -/
def cleanQueryParams (q : Bytes) : Bytes := if needsReencode q then encodeValues (parseQuery q) else q

/-- targets `parseRequestURI` models: origin-form, or absolute-form with `//` and a simple authority; on anything
else (`*`, opaque forms, userinfo, bracketed IP literals) its `none` does not mean that Go rejects the target -/
def modelledTarget (t : Bytes) : Bool :=
  if t.head? = some '/' then true
  else match scanScheme true t with
    | .found _ rest =>
      match (splitQuery rest).1 with
      | '/' :: '/' :: r2 => simpleAuthority (r2.takeWhile (· ≠ '/'))
      | _ => false
    | .err => true      -- "missing protocol scheme": Go rejects it too
    | .noScheme => t ≠ ['*']

end FwdURL
