/-!
# The part of Go's `net/url` that decides what request target the forwarder sends (C08)

Byte strings are `List Char` (every char stands for one byte; the driver only produces chars < 256).
Followed function by function from `/usr/lib/go-1.23/src/net/url/url.go`, path mode (`encodePath`) only:
`ishex`/`unhex`, `unescape`, `shouldEscape`, `escape`, `validEncoded`, `setPath`, `EscapedPath`,
`RequestURI`, and `parse(rawURL, viaRequest = true)` restricted to origin-form targets (first byte `/`,
so `getScheme` returns no scheme and no authority is parsed). `*` and absolute-form targets are not
modelled (`parseRequestURI` returns `none` on them, like on a malformed escape).
-/
namespace FwdURL

abbrev Bytes := List Char

def ishex (c : Char) : Bool :=
  ('0' ≤ c && c ≤ '9') || ('a' ≤ c && c ≤ 'f') || ('A' ≤ c && c ≤ 'F')

def unhex (c : Char) : Nat :=
  if '0' ≤ c && c ≤ '9' then c.toNat - '0'.toNat
  else if 'a' ≤ c && c ≤ 'f' then c.toNat - 'a'.toNat + 10
  else if 'A' ≤ c && c ≤ 'F' then c.toNat - 'A'.toNat + 10
  else 0

/-- `unescape(s, encodePath)`: `%XY` ↦ byte, `+` stays `+`; `none` = `EscapeError`. -/
def unescape : Bytes → Option Bytes
  | [] => some []
  | c :: rest =>
    if c = '%' then
      match rest with
      | a :: b :: rest' =>
        if ishex a && ishex b then (unescape rest').map (Char.ofNat (unhex a * 16 + unhex b) :: ·) else none
      | _ => none
    else (unescape rest).map (c :: ·)

def isAlnum (c : Char) : Bool :=
  ('a' ≤ c && c ≤ 'z') || ('A' ≤ c && c ≤ 'Z') || ('0' ≤ c && c ≤ '9')

/-- `shouldEscape(c, encodePath)` -/
def shouldEscape (c : Char) : Bool :=
  if isAlnum c then false
  else if c = '-' || c = '_' || c = '.' || c = '~' then false
  else if c = '$' || c = '&' || c = '+' || c = ',' || c = '/' || c = ':' || c = ';' || c = '=' || c = '?' || c = '@' then
    c = '?'
  else true

def upperhex (n : Nat) : Char :=
  if n < 10 then Char.ofNat ('0'.toNat + n) else Char.ofNat ('A'.toNat + (n - 10))

/-- `escape(s, encodePath)` -/
def escape : Bytes → Bytes
  | [] => []
  | c :: rest =>
    if shouldEscape c then '%' :: upperhex (c.toNat / 16) :: upperhex (c.toNat % 16) :: escape rest
    else c :: escape rest

/-- `validEncoded(s, encodePath)` -/
def validEncodedChar (c : Char) : Bool :=
  if c = '!' || c = '$' || c = '&' || c = '\'' || c = '(' || c = ')' || c = '*' || c = '+' || c = ','
      || c = ';' || c = '=' || c = ':' || c = '@' then true
  else if c = '[' || c = ']' then true
  else if c = '%' then true
  else !shouldEscape c

def validEncoded (s : Bytes) : Bool := s.all validEncodedChar

/-- the fields of `url.URL` the forwarder reads or writes -/
structure URL where
  scheme : String := ""
  host : String := ""
  path : Bytes := []
  rawPath : Bytes := []
  forceQuery : Bool := false
  rawQuery : Bytes := []
  deriving Repr, DecidableEq

/-- `(*URL).setPath`: `none` when unescaping fails -/
def setPath (u : URL) (p : Bytes) : Option URL :=
  match unescape p with
  | none => none
  | some path =>
    if p = escape path then some { u with path := path, rawPath := [] }
    else some { u with path := path, rawPath := p }

/-- `(*URL).EscapedPath` -/
def escapedPath (u : URL) : Bytes :=
  if u.rawPath ≠ [] && validEncoded u.rawPath && unescape u.rawPath == some u.path then u.rawPath
  else if u.path = ['*'] then ['*']
  else escape u.path

/-- `(*URL).RequestURI` (no `Opaque`) -/
def requestURI (u : URL) : Bytes :=
  let r := escapedPath u
  let r := if r = [] then ['/'] else r
  if u.forceQuery || u.rawQuery ≠ [] then r ++ '?' :: u.rawQuery else r

def containsCTL (s : Bytes) : Bool := s.any fun c => c.toNat < 0x20 || c.toNat = 0x7f

/-- `strings.Cut(s, "?")` -/
def cutQ : Bytes → Bytes × Option Bytes
  | [] => ([], none)
  | c :: rest =>
    if c = '?' then ([], some rest)
    else let r := cutQ rest; (c :: r.1, r.2)

/-- `url.ParseRequestURI` on an origin-form target -/
def parseRequestURI (t : Bytes) : Option URL :=
  if containsCTL t then none
  else match t with
    | '/' :: _ =>
      -- `strings.HasSuffix(rest, "?") && strings.Count(rest, "?") == 1`
      if t.getLast? = some '?' && t.count '?' = 1 then
        setPath { forceQuery := true } t.dropLast
      else
        let c := cutQ t
        setPath { rawQuery := c.2.getD [] } c.1
    | _ => none

end FwdURL
