/-!
# Model of `utils/source.go` — source extractors (core Lean only)

A Go `string` is a sequence of bytes; it is modelled as `Str = List Char`, one `Char` per byte (the
driver maps byte `b` to the character with code `b`, so nothing here depends on UTF-8).  Everything
the code does with these strings — search for `':' '[' ']'`, slicing, concatenation, equality,
ASCII case mapping — is defined on the sequence of bytes.

* `splitHostPort` / `joinHostPort` follow `net.SplitHostPort` / `net.JoinHostPort` (Go 1.23
  `net/ipsock.go`) branch by branch, with `take`/`drop` for slices.
* `extractClientIP`: `host, _, err := net.SplitHostPort(req.RemoteAddr); if err != nil { host = req.RemoteAddr }`
  `if host == "" { error }; return host, 1, nil`.
* `canonKey` is `textproto.CanonicalMIMEHeaderKey`; `headerGet` is `http.Header.Get` on a header map
  filled by `Header.Add` in the order given (what a server does with the header lines it reads).
-/
namespace Source

abbrev Str := List Char

def str (s : String) : Str := s.toList

/-- `bytealg.IndexByteString` -/
def indexOf (c : Char) : Str → Option Nat
  | [] => none
  | x :: t => if x = c then some 0 else (indexOf c t).map (· + 1)

/-- `bytealg.LastIndexByteString` -/
def lastIndexOf (c : Char) : Str → Option Nat
  | [] => none
  | x :: t =>
    match lastIndexOf c t with
    | some i => some (i + 1)
    | none => if x = c then some 0 else none

inductive SplitErr where
  | missingPort
  | tooManyColons
  | missingClose      -- "missing ']' in address"
  | unexpectedOpen    -- "unexpected '[' in address"
  | unexpectedClose   -- "unexpected ']' in address"
deriving Repr, DecidableEq

/-- the common tail of `net.SplitHostPort`: the two bracket checks from positions `j`, `k`, then
    `port = hostport[i+1:]` -/
def splitTail (hp host : Str) (i j k : Nat) : Except SplitErr (Str × Str) :=
  if (indexOf '[' (hp.drop j)).isSome then .error .unexpectedOpen
  else if (indexOf ']' (hp.drop k)).isSome then .error .unexpectedClose
  else .ok (host, hp.drop (i + 1))

/-- `net.SplitHostPort` -/
def splitHostPort (hp : Str) : Except SplitErr (Str × Str) :=
  match lastIndexOf ':' hp with
  | none => .error .missingPort
  | some i =>
    if hp.head? = some '[' then
      match indexOf ']' hp with
      | none => .error .missingClose
      | some e =>
        if e + 1 = hp.length then .error .missingPort
        else if e + 1 = i then splitTail hp ((hp.take e).drop 1) i 1 (e + 1)
        else if (hp.drop (e + 1)).head? = some ':' then .error .tooManyColons
        else .error .missingPort
    else
      let host := hp.take i
      if (indexOf ':' host).isSome then .error .tooManyColons
      else splitTail hp host i 0 0

/-- `net.JoinHostPort` -/
def joinHostPort (host port : Str) : Str :=
  if (indexOf ':' host).isSome then '[' :: host ++ ']' :: ':' :: port
  else host ++ ':' :: port

inductive ExtractErr where
  | noClientIP        -- "failed to parse client IP: …"
deriving Repr, DecidableEq

/-- what an extractor could read of a request; `headers` = the header lines in arrival order;
    `urlHost` = `req.URL.Host` (empty for an origin-form request line as the server reads it, set for
    an absolute-form target, and re-pointed at the backend by a load balancer in front) -/
structure Req where
  remoteAddr : Str
  host : Str
  headers : List (Str × Str)
  urlHost : Str
deriving Repr, DecidableEq

/-- `extractClientIP` on `req.RemoteAddr` -/
def extractClientIP (remoteAddr : Str) : Except ExtractErr (Str × Int) :=
  let host := match splitHostPort remoteAddr with
    | .ok (h, _) => h
    | .error _ => remoteAddr      -- no port: take the whole address
  if host = [] then .error .noClientIP else .ok (host, 1)

/-- `extractHost`: `req.Host`, never `req.URL.Host` -/
def extractHost (host : Str) : Except ExtractErr (Str × Int) := .ok (host, 1)

/-- `textproto.validHeaderFieldByte` -/
def validHeaderFieldByte (c : Char) : Bool :=
  c.isDigit || ('a' ≤ c && c ≤ 'z') || ('A' ≤ c && c ≤ 'Z') ||
  "!#$%&'*+-.^_`|~".toList.contains c

def upperByte (c : Char) : Char := if 'a' ≤ c ∧ c ≤ 'z' then Char.ofNat (c.toNat - 32) else c
def lowerByte (c : Char) : Char := if 'A' ≤ c ∧ c ≤ 'Z' then Char.ofNat (c.toNat + 32) else c

/-- the canonicalising loop: upper case first and after every `-`, lower case elsewhere -/
def titleCase : Bool → Str → Str
  | _, [] => []
  | upper, c :: t =>
    let c' := if upper then upperByte c else lowerByte c
    c' :: titleCase (c' = '-') t

/-- `textproto.CanonicalMIMEHeaderKey`: unchanged if any byte is not a header-field byte -/
def canonKey (s : Str) : Str := if s.all validHeaderFieldByte then titleCase true s else s

/-- `http.Header.Get(name)` on the map built by `Header.Add(k, v)` for every line in order:
    first value stored under the canonical key, `""` if none -/
def headerGet (hs : List (Str × Str)) (name : Str) : Str :=
  match hs.find? (fun p => canonKey p.1 = canonKey name) with
  | some p => p.2
  | none => []

/-- the extractor closures `NewExtractor` can return -/
inductive Kind where
  | clientIP
  | host
  | header (name : Str)
deriving Repr, DecidableEq

inductive NewErr where
  | wrongHeader       -- "wrong header: "
  | unsupported       -- "unsupported limiting variable: '…'"
deriving Repr, DecidableEq

def headerPrefix : Str := "request.header.".toList

/-- `strings.HasPrefix` -/
def hasPrefix (s p : Str) : Bool := p.isPrefixOf s

/-- `NewExtractor(variable)` -/
def newExtractor (v : Str) : Except NewErr Kind :=
  if v = "client.ip".toList then .ok .clientIP
  else if v = "request.host".toList then .ok .host
  else if hasPrefix v headerPrefix then
    let header := v.drop headerPrefix.length      -- strings.TrimPrefix
    if header = [] then .error .wrongHeader else .ok (.header header)
  else .error .unsupported

/-- `extractor.Extract(req)` -/
def extract : Kind → Req → Except ExtractErr (Str × Int)
  | .clientIP, r => extractClientIP r.remoteAddr
  | .host, r => extractHost r.host
  | .header name, r => .ok (headerGet r.headers name, 1)

end Source
