/-!
# Model of the circuit-breaker condition language (core Lean only)

Follows `/repo/cbreaker/predicates.go` combinator by combinator, and the part of
`github.com/vulcand/predicate` (`parse.go`) that turns a Go expression into calls of those
combinators.

* An expression is a tree of `&&` / `||` over comparisons `fn(args…) <op> literal`.  The Go parser
  (precedence, parentheses) is *not* modelled: the correspondence check hands the same tree to the
  real parser in Go syntax and to this model in prefix form.
* `parseExpression` fails unless every literal has the Go type the combinator asserts
  (`val.(int)` / `val.(float64)`, `reflect.Call` argument types): `Expr.wellTyped`.
* A mapper (`toInt` / `toFloat64`) reads the metrics **each time it is called**, and reading mutates
  them (`RollingCounter.Count` cleans up).  So the evaluator threads a state `σ` through a `Reader`;
  `le` is `lt(c) || eq(c)` (two reads when the first is false), `neq` is `!eq(c)`, `and`/`or`
  return at the first decisive operand.
* `float64` values are exact integer pairs `num/den` (`den ≠ 0`), compared with decimal literals
  `p/q` by sign-aware cross-multiplication, i.e. as real numbers (float rounding: see DESIGN §4).
-/
namespace CBExpr

/-- a Go literal: `token.INT` (→ `int`) or `token.FLOAT` (→ `float64`, here the exact decimal
    `num/den`, `den > 0`) -/
inductive Lit where
  | int (n : Nat)
  | float (num den : Nat)
deriving Repr, DecidableEq

/-- the three registered functions, with their literal arguments -/
inductive Fn where
  | ner                               -- NetworkErrorRatio()
  | rcr (a b c d : Lit)               -- ResponseCodeRatio(startA, endA, startB, endB)
  | lat (q : Lit)                     -- LatencyAtQuantileMS(quantile)
deriving Repr, DecidableEq

inductive Cmp where
  | eq | neq | lt | le | gt | ge
deriving Repr, DecidableEq

inductive Expr where
  | cmp (op : Cmp) (f : Fn) (v : Lit)
  | and (a b : Expr)
  | or (a b : Expr)
  | bad                               -- anything `parseExpression` rejects for another reason
deriving Repr, DecidableEq

/-- value returned by a mapper: `toInt` or `toFloat64` (`num/den`) -/
inductive Val where
  | int (i : Int)
  | ratio (num den : Int)
deriving Repr, DecidableEq

def Lit.isInt : Lit → Bool
  | .int _ => true
  | .float _ _ => false

/-- a float literal as the model reads it needs a positive denominator -/
def Lit.isFloat : Lit → Bool
  | .int _ => false
  | .float _ d => decide (0 < d)

def Lit.nat : Lit → Nat
  | .int n => n
  | .float _ _ => 0

/-- `reflect.Call` of the registered function: `responseCodeRatio(int, int, int, int)`,
    `latencyAtQuantile(float64)`, `networkErrorRatio()` -/
def Fn.wellTyped : Fn → Bool
  | .ner => true
  | .rcr a b c d => a.isInt && b.isInt && c.isInt && d.isInt
  | .lat q => q.isFloat

/-- the mapper is a `toInt` (else a `toFloat64`) -/
def Fn.isInt : Fn → Bool
  | .lat _ => true
  | _ => false

/-- `parseExpression` succeeds: `intEQ/intLT/intGT` assert `val.(int)`, `float64EQ/LT/GT` assert
    `val.(float64)` -/
def Expr.wellTyped : Expr → Bool
  | .cmp _ f v => f.wellTyped && (if f.isInt then v.isInt else v.isFloat)
  | .and a b => a.wellTyped && b.wellTyped
  | .or a b => a.wellTyped && b.wellTyped
  | .bad => false

/-- the quantile literals of the `LatencyAtQuantileMS` calls, left to right (the order in which the
    oracle values are listed on an op line) -/
def Expr.quantiles : Expr → List Lit
  | .cmp _ (.lat q) _ => [q]
  | .cmp _ _ _ => []
  | .and a b => a.quantiles ++ b.quantiles
  | .or a b => a.quantiles ++ b.quantiles
  | .bad => []

/-! ### comparisons of a mapper value with a literal -/

/-- `m(c) == value` -/
def valEq : Val → Lit → Bool
  | .int i, .int n => decide (i = (n : Int))
  | .ratio a b, .float p q => decide (a * (q : Int) = (p : Int) * b)
  | _, _ => false

/-- `m(c) < value`; `a/b < p/q` with `q > 0`: cross-multiplied, the direction depends on the sign of `b` -/
def valLt : Val → Lit → Bool
  | .int i, .int n => decide (i < (n : Int))
  | .ratio a b, .float p q =>
    if 0 < b then decide (a * (q : Int) < (p : Int) * b) else decide ((p : Int) * b < a * (q : Int))
  | _, _ => false

/-- `m(c) > value` -/
def valGt : Val → Lit → Bool
  | .int i, .int n => decide ((n : Int) < i)
  | .ratio a b, .float p q =>
    if 0 < b then decide ((p : Int) * b < a * (q : Int)) else decide (a * (q : Int) < (p : Int) * b)
  | _, _ => false

/-- the mappers: each call reads (and may change) the metrics state -/
structure Reader (σ : Type) where
  ner : σ → σ × Val
  rcr : Nat → Nat → Nat → Nat → σ → σ × Val
  lat : Lit → σ → σ × Val

/-- calling the mapper built by `networkErrorRatio()` / `responseCodeRatio(…)` / `latencyAtQuantile(q)` -/
def Reader.call {σ : Type} (rd : Reader σ) : Fn → σ → σ × Val
  | .ner, s => rd.ner s
  | .rcr a b c d, s => rd.rcr a.nat b.nat c.nat d.nat s
  | .lat q, s => rd.lat q s

/-- one of `intEQ/intLT/intGT/float64EQ/float64LT/float64GT`: `func(c) bool { return m(c) ⋈ value }` -/
def atom {σ : Type} (rd : Reader σ) (f : Fn) (test : Val → Bool) (s : σ) : σ × Bool :=
  let r := rd.call f s
  (r.1, test r.2)

/-- the predicate built by `parseExpression`, applied to the breaker -/
def eval {σ : Type} (rd : Reader σ) : Expr → σ → σ × Bool
  | .cmp .eq f v, s => atom rd f (valEq · v) s
  | .cmp .neq f v, s =>                       -- `not(eq)`
    let r := atom rd f (valEq · v) s
    (r.1, !r.2)
  | .cmp .lt f v, s => atom rd f (valLt · v) s
  | .cmp .gt f v, s => atom rd f (valGt · v) s
  | .cmp .le f v, s =>                        -- `l(c) || e(c)`
    let r := atom rd f (valLt · v) s
    if r.2 then (r.1, true) else atom rd f (valEq · v) r.1
  | .cmp .ge f v, s =>                        -- `g(c) || e(c)`
    let r := atom rd f (valGt · v) s
    if r.2 then (r.1, true) else atom rd f (valEq · v) r.1
  | .and a b, s =>                            -- `for fn in fns { if !fn(c) { return false } }; return true`
    let r := eval rd a s
    if !r.2 then (r.1, false) else
      let r2 := eval rd b r.1
      if !r2.2 then (r2.1, false) else (r2.1, true)
  | .or a b, s =>                             -- `for fn in fns { if fn(c) { return true } }; return false`
    let r := eval rd a s
    if r.2 then (r.1, true) else
      let r2 := eval rd b r.1
      if r2.2 then (r2.1, true) else (r2.1, false)
  | .bad, s => (s, false)

end CBExpr
