import OxyModel.Model.RoundRobin
import OxyModel.Model.StickyURL

/-!
# Model of sticky sessions (core Lean only)

`roundrobin/stickysessions.go`, `roundrobin/stickycookie/*.go` and the sticky paths of
`RoundRobin.ServeHTTP` / `Rebalancer.ServeHTTP`, followed branch by branch, plus the pieces of
`net/http` that sit between `StickBackend` and `GetBackend` (`http.SetCookie` → `sanitizeCookieValue`,
`Request.Cookie` → `readCookies` / `parseCookieValue`).

* The pool is `servers []*server` of `rr.go`: the URL stored for a server is the one of the *first*
  upsert of its key `(Scheme, Host, Path)`; selection is `RR.next` (the C01 iterator) over the weights.
  The rebalancer delegates `Servers()` / `NextServer()` to the wrapped balancer and, as long as the
  ratings do not differ (healthy backends), never changes a weight: it is the same machine.
* Codecs are data (`Codec`).  The hash function and the AEAD are *parameters* (`Env`): the theorems
  assume collision-freedom on the pool resp. `Cipher.Ideal` as explicit hypotheses; the driver
  instantiates them with FNV-1a/64 (what `HashValue` uses) and with a symbolic cipher whose cookie
  strings are the tokens of the line protocol.
* Time: `now` = ns since 2020-01-01T00:00:00Z; `AESValue` works in unix seconds.
-/
namespace Sticky

/-! ## `net/http` cookie plumbing -/

def isASCIISpace (c : Char) : Bool := c == ' ' || c == '\t' || c == '\n' || c == '\r'

/-- `textproto.TrimString` -/
def trimString (s : Str) : Str := ((s.dropWhile isASCIISpace).reverse.dropWhile isASCIISpace).reverse

def validCookieValueByte (c : Char) : Bool :=
  0x20 ≤ c.toNat && c.toNat < 0x7f && c != '"' && c != ';' && c != '\\'

/-- `httpguts.IsTokenRune` -/
def isTokenChar (c : Char) : Bool :=
  isAlpha c || isDigit c ||
    ['!', '#', '$', '%', '&', '\'', '*', '+', '-', '.', '^', '_', '`', '|', '~'].contains c

def isCookieNameValid (n : Str) : Bool := n != [] && n.all isTokenChar

/-- `sanitizeCookieValue(v, quoted = false)`: drop invalid bytes; quote when a space or comma remains -/
def sanitizeCookieValue (v : Str) : Str :=
  let v' := v.filter validCookieValueByte
  if v' = [] then []
  else if v'.any (fun c => c == ' ' || c == ',') then '"' :: v' ++ ['"']
  else v'

/-- `parseCookieValue(raw, allowDoubleQuote = true)` -/
def parseCookieValue (raw : Str) : Option Str :=
  let raw' := if raw.length > 1 && raw.head? = some '"' && raw.getLast? = some '"'
    then (raw.drop 1).dropLast else raw
  if raw'.all validCookieValueByte then some raw' else none

/-- `strings.Split` on one byte -/
def splitOn (c : Char) : Str → List Str
  | [] => [[]]
  | x :: t =>
    if x = c then [] :: splitOn c t
    else match splitOn c t with
      | [] => [[x]]
      | p :: ps => (x :: p) :: ps

/-- `req.Cookie(name)` for a request with the single header line `Cookie: <line>`:
    the first pair of `readCookies(h, name)` -/
def readCookie (name : Str) (line : Str) : Option Str :=
  (splitOn ';' (trimString line)).findSome? fun part =>
    let part := trimString part
    if part = [] then none
    else
      let c := cut '=' part
      let n := trimString c.1
      if !isCookieNameValid n then none
      else if n != name then none
      else parseCookieValue c.2.1

/-- the value a client finds in the `Set-Cookie` line written by `http.SetCookie` for
    `Cookie{Name: name, Value: v, …}` (`none`: invalid name, nothing is written) -/
def setCookieWire (name v : Str) : Option Str :=
  if isCookieNameValid name then some (sanitizeCookieValue v) else none

/-- the `Cookie:` header line of a client that echoes the pair it was given -/
def echoLine (name wire : Str) : Str := name ++ '=' :: wire

/-! ## decimal numbers (`%d`, `strconv.ParseInt(s, 10, 64)`) -/

def decimal (n : Nat) : Str := Nat.toDigits 10 n

def parseInt64 (s : Str) : Option Int :=
  let neg : Bool := s.head? = some '-'
  let ds : Str := if s.head? = some '-' ∨ s.head? = some '+' then s.drop 1 else s
  if ds = [] || !ds.all Char.isDigit then none
  else
    let n := Nat.ofDigitChars 10 ds 0
    if neg then (if n ≤ 2 ^ 63 then some (-(n : Int)) else none)
    else (if n < 2 ^ 63 then some (n : Int) else none)

/-- unix time of protocol time 0 (2020-01-01T00:00:00Z), in ns -/
def baseUnixNs : Nat := 1577836800 * 1000000000

/-! ## the parameters: hash and AEAD -/

/-- `AESValue` up to the plaintext: `box key nonce plain` is the cookie string
    (`base64(Seal(plain) ‖ nonce)`), `unbox key v` is `fromValue` up to and including `block.Open`
    (`none`: not base64, too short, authentication failure) -/
structure Cipher where
  box : Nat → Nat → Str → Str
  unbox : Nat → Str → Option Str

/-- survives `http.SetCookie` untouched and unquoted -/
def cookieSafe (v : Str) : Bool := v.all fun c => validCookieValueByte c && c != ' ' && c != ','

/-- a Go string: every character stands for one byte -/
def Bytes (s : Str) : Prop := ∀ c ∈ s, c.toNat < 256

/-- two cookie strings no key tells apart: they decode to the same ciphertext‖nonce.
    (`base64.RawURLEncoding.DecodeString` is not strict — strings that differ only in the unused trailing bits
    of the last character decode alike — so authenticity cannot be string equality.) -/
def Cipher.same (c : Cipher) (v w : Str) : Prop := ∀ k, c.unbox k v = c.unbox k w

/-- the ideal-AEAD hypothesis of the theorems (plaintexts are byte strings) -/
structure Cipher.Ideal (c : Cipher) : Prop where
  unbox_box : ∀ k n m, Bytes m → c.unbox k (c.box k n m) = some m
  /-- anything that opens under `k` is (an encoding of) a cookie minted under `k` for that plaintext -/
  authentic : ∀ k v m, c.unbox k v = some m → ∃ n, c.same v (c.box k n m)
  key_sep : ∀ k k' n m, k ≠ k' → c.unbox k' (c.box k n m) = none
  safe : ∀ k n m, Bytes m → cookieSafe (c.box k n m) = true

structure Env where
  hash : Str → Str
  cipher : Cipher

/-! ## codecs: `stickycookie.CookieValue` -/

inductive Codec where
  | raw
  | hash (salt : Str)
  /-- `ttl` in ns (`time.Duration`) -/
  | aes (key : Nat) (ttl : Nat)
  | fallback (frm to : Codec)
deriving Repr, DecidableEq

/-- `CookieValue.Get(u)` at time `now` -/
def get (E : Env) (now : Nat) : Codec → URL → Str
  | .raw, u => render u
  | .hash salt, u => E.hash (salt ++ normalized u)
  | .aes k ttl, u =>
    let base := render u
    let base := if ttl > 0 then base ++ '|' :: decimal ((baseUnixNs + now + ttl) / 1000000000) else base
    E.cipher.box k now base
  | .fallback _ to, u => get E now to u

/-- the loop of `RawValue.FindURL` / `AESValue.FindURL`: `areURLEqual(raw, u)` for each server in turn
    (the parse is the same every time: an error ends the loop on the first server) -/
def findByURL (raw : Str) (urls : List URL) : Option URL :=
  match parse raw with
  | none => none
  | some p => urls.find? fun u => p.scheme == u.scheme && p.host == u.host && p.path == u.path

/-- `AESValue.fromValue` after `block.Open` -/
def checkTTL (now ttl : Nat) (plain : Str) : Option Str :=
  if ttl > 0 then
    match cutLast '|' plain with
    | none => none
    | some (url, exp) =>
      match parseInt64 exp with
      | none => none
      | some i => if ((baseUnixNs + now : Nat) : Int) > i * 1000000000 then none else some url
  else some plain

/-- `CookieValue.FindURL(v, urls)` at time `now`; an `error` return is `none` (callers only log it) -/
def find (E : Env) (now : Nat) : Codec → Str → List URL → Option URL
  | .raw, v, urls => findByURL v urls
  | .hash salt, v, urls => urls.find? fun u => v == E.hash (salt ++ normalized u)
  | .aes k ttl, v, urls =>
    match E.cipher.unbox k v with
    | none => none
    | some plain =>
      match checkTTL now ttl plain with
      | none => none
      | some raw => findByURL raw urls
  | .fallback frm to, v, urls =>
    match find E now frm v urls with
    | some u => some u
    | none => find E now to v urls

/-! ## the pool -/

structure Srv where
  url : URL
  w : Nat
deriving Repr, DecidableEq

/-- `UpsertServer(u, Weight(w))` on `r.servers` (`w = none`: no option) -/
def upsertL (u : URL) (w : Option Nat) : List Srv → List Srv
  | [] => [⟨u, match w with | some w => if w = 0 then 1 else w | none => 1⟩]
  | s :: t => if s.url.key = u.key then ⟨s.url, w.getD s.w⟩ :: t else s :: upsertL u w t

/-- `RemoveServer(u)`; `none` = "server not found" -/
def removeL (k : Key) : List Srv → Option (List Srv)
  | [] => none
  | s :: t => if s.url.key = k then some t else (removeL k t).map (s :: ·)

structure LB where
  srvs : List Srv
  it : RR.It
deriving Repr, DecidableEq

namespace LB
def empty : LB := ⟨[], RR.It.reset⟩
/-- `Servers()` -/
def urls (lb : LB) : List URL := lb.srvs.map (·.url)
def ws (lb : LB) : List Nat := lb.srvs.map (·.w)
def upsert (lb : LB) (u : URL) (w : Option Nat) : LB := ⟨upsertL u w lb.srvs, RR.It.reset⟩
def remove (lb : LB) (u : URL) : Option LB := (removeL u.key lb.srvs).map fun l => ⟨l, RR.It.reset⟩
/-- `NextServer()` -/
def nextServer (lb : LB) : RR.Res × LB :=
  let r := RR.next lb.ws lb.it
  (r.1, { lb with it := r.2 })
end LB

/-! ## the rebalancer's administration

`Rebalancer.Servers()` and `NextServer()` delegate to the wrapped balancer; what the rebalancer adds is its own
list of records (`rb.servers`: URL, configured weight).  Servers may also be registered on the wrapped balancer
directly, so the two lists can differ.  With healthy backends no weight is ever re-rated, so `curWeight` is
`origWeight` throughout and `reset()` re-upserts every record with its configured weight. -/

structure RB where
  lb : LB
  recs : List (URL × Nat)
deriving Repr

namespace RB
/-- `rb.reset()`: `rb.next.UpsertServer(s.url, Weight(s.origWeight))` for every record, in order -/
def reset (lb : LB) (recs : List (URL × Nat)) : LB := recs.foldl (fun lb r => lb.upsert r.1 (some r.2)) lb

def findRec (recs : List (URL × Nat)) (k : Key) : Option (URL × Nat) := recs.find? fun r => r.1.key == k

/-- `Rebalancer.UpsertServer(u, Weight(w))` (`w = none`: no option) -/
def upsert (rb : RB) (u : URL) (w : Option Nat) : RB :=
  -- an existing record: the configured weight is derived from the record, then `Weight(configured)` is passed on
  let opt : Option Nat := match findRec rb.recs u.key with
    | some r => some (w.getD r.2)
    | none => w
  let lb1 := rb.lb.upsert u opt
  -- `weight, _ := rb.next.ServerWeight(u)`
  let weight := match lb1.srvs.find? (fun s => s.url.key == u.key) with | some s => s.w | none => 0
  -- `rb.upsertServer(u, weight)`
  let recs1 := match findRec rb.recs u.key with
    | some _ => rb.recs.map fun r => if r.1.key == u.key then (r.1, weight) else r
    | none => rb.recs ++ [(u, weight)]
  ⟨reset lb1 recs1, recs1⟩

/-- `Rebalancer.RemoveServer(u)`; `none` = error (no record, or the wrapped balancer does not have the server) -/
def remove (rb : RB) (u : URL) : Option RB :=
  match findRec rb.recs u.key with
  | none => none
  | some _ =>
    match rb.lb.remove u with
    | none => none
    | some lb1 =>
      let recs1 := rb.recs.filter fun r => r.1.key != u.key
      some ⟨reset lb1 recs1, recs1⟩
end RB

/-! ## `StickySession` and `ServeHTTP` -/

structure Session where
  name : Str
  codec : Codec
deriving Repr

/-- `StickySession.GetBackend(req, servers)`; `hdr` = the request's `Cookie` header line, if any -/
def getBackend (E : Env) (now : Nat) (ss : Session) (hdr : Option Str) (servers : List URL) : Option URL :=
  match hdr with
  | none => none
  | some line =>
    match readCookie ss.name line with
    | none => none
    | some v => find E now ss.codec v servers

inductive Resp where
  /-- forwarded to `u`; `set` = value of the `Set-Cookie` pair written by `StickBackend`, if any -/
  | served (u : URL) (set : Option Str)
  /-- `errHandler.ServeHTTP(w, req, err)` -/
  | rejected (e : RR.Res)
deriving Repr, DecidableEq

/-- `ServeHTTP` of a balancer with a sticky session -/
def serve (E : Env) (now : Nat) (ss : Session) (lb : LB) (hdr : Option Str) : LB × Resp :=
  match getBackend E now ss hdr lb.urls with
  | some u => (lb, .served u none)
  | none =>
    let r := lb.nextServer
    match r.1 with
    | .sel i =>
      match lb.urls[i]? with
      | some u => (r.2, .served u (setCookieWire ss.name (get E now ss.codec u)))
      | none => (r.2, .rejected .outOfFuel)
    | e => (r.2, .rejected e)

/-! ## instances used by the driver (and by the non-vacuity examples) -/

/-- FNV-1a, 64 bit -/
def fnv1a64 (s : Str) : Nat :=
  s.foldl (fun h c => ((h ^^^ c.toNat) * 1099511628211) % 2 ^ 64) 14695981039346656037

/-- `strconv.FormatUint(fnv1a.HashString64(s), 16)` -/
def fnvHash (s : Str) : Str := Nat.toDigits 16 (fnv1a64 s)

/-- token escaping of the line protocol: keep `[A-Za-z0-9]` and `-._~:/@?=&[]`, `%XX` the rest -/
def tokKeep (c : Char) : Bool :=
  isAlpha c || isDigit c || ['-', '.', '_', '~', ':', '/', '@', '?', '=', '&', '[', ']'].contains c

def esc (s : Str) : Str := s.flatMap fun c => if tokKeep c then [c] else escByte c

def unesc : Str → Option Str
  | [] => some []
  | c :: rest =>
    if c = '%' then
      match rest with
      | a :: b :: rest' =>
        if ishex a && ishex b then (unesc rest').map (Char.ofNat (unhex a * 16 + unhex b) :: ·) else none
      | _ => none
    else (unesc rest).map (c :: ·)

def aesTag : Str := ['a', 'e', 's', '.']

/-- symbolic AEAD: the cookie string *is* the protocol token `aes.<key>.<esc plaintext>`; the nonce is
    not observable -/
def symCipher : Cipher where
  box := fun k _ m => aesTag ++ decimal k ++ '.' :: esc m
  unbox := fun k v =>
    if aesTag.isPrefixOf v then
      let c := cut '.' (v.drop 4)
      if c.2.2 && c.1 = decimal k then
        match unesc c.2.1 with
        | some m => if esc m = c.2.1 then some m else none
        | none => none
      else none
    else none

def stdEnv : Env := ⟨fnvHash, symCipher⟩

end Sticky
