import OxyModel.Model.TTLMap

/-!
# Model of `ratelimit/bucket.go`, `bucketset.go`, `tokenlimiter.go` — core Lean only

* time = `Nat` nanoseconds since `hx.Base`; `int64` amounts / tokens = `Nat` (requests carry a
  non-negative amount; overflow and negative amounts are unmodelled);
* `timePerToken = maxDuration(1, period / average)` with Go's *integer* quotient;
* `TokenBucketSet.buckets` (a Go map keyed by period) is a list of buckets with distinct periods.  Every
  use of the map is order-independent except the delay that `Consume` returns *next to an error*,
  which the model (and the canonical output) drops;
* `TokenLimiter.bucketSets` is the `TTL.Map` of `Model/TTLMap.lean`; the map stores a *pointer* to the
  set, so the `Consume` that follows `Set` in `consumeRates` mutates the stored value — the model
  stores the consumed set.
-/
namespace RL

def second : Nat := 1000000000

/-- `rate` -/
structure Rate where
  period : Nat
  average : Nat
  burst : Nat
deriving Repr, DecidableEq

/-- the checks of `RateSet.Add` -/
def Rate.valid (r : Rate) : Bool := decide (0 < r.period) && decide (0 < r.average) && decide (0 < r.burst)

/-- `RateSet.Add`: one rate per period, a later one overrides -/
def addRate (rs : List Rate) (r : Rate) : Option (List Rate) :=
  if r.valid then
    some (if rs.any (fun x => x.period == r.period) then rs.map (fun x => if x.period == r.period then r else x)
          else rs ++ [r])
  else none

def lookupRate (rs : List Rate) (p : Nat) : Option Rate := rs.find? (fun r => r.period == p)

/-- `maxDuration(1, period / average)` (`if x > y { return x }; return y`) -/
def tptOf (period average : Nat) : Nat :=
  if 1 > period / average then 1 else period / average

/-- `tokenBucket` -/
structure Bucket where
  period : Nat
  tpt    : Nat      -- timePerToken
  burst  : Nat
  avail  : Nat      -- availableTokens
  lr     : Nat      -- lastRefresh (ns)
  lastConsumed : Nat
deriving Repr, DecidableEq

/-- `newTokenBucket` -/
def mkBucket (r : Rate) (now : Nat) : Bucket :=
  let period := if r.period = 0 then 1 else r.period
  { period := period, tpt := tptOf period r.average, burst := r.burst, avail := r.burst, lr := now, lastConsumed := 0 }

/-- `updateAvailableTokens` -/
def Bucket.refill (b : Bucket) (now : Nat) : Bucket :=
  if b.tpt = 0 then b else
  let tokens := b.avail + (now - b.lr) / b.tpt
  let b1 := if tokens ≠ b.avail then { b with lr := now, avail := tokens } else b
  if b1.avail > b1.burst then { b1 with avail := b1.burst } else b1

inductive BRes where
  | ok
  | delay (d : Nat)
  | err
deriving Repr, DecidableEq

/-- `consume` -/
def Bucket.consume (b : Bucket) (now tokens : Nat) : Bucket × BRes :=
  let b1 := { b.refill now with lastConsumed := 0 }
  if tokens > b1.burst then (b1, .err)
  else if b1.avail < tokens then (b1, .delay ((tokens - b1.avail) * b1.tpt))
  else ({ b1 with avail := b1.avail - tokens, lastConsumed := tokens }, .ok)

/-- `rollback` -/
def Bucket.rollback (b : Bucket) : Bucket :=
  { b with avail := b.avail + b.lastConsumed, lastConsumed := 0 }

/-- `update` (a period mismatch is an error that leaves the bucket alone; `TokenBucketSet.Update` only
    calls it with the matching rate) -/
def Bucket.update (b : Bucket) (r : Rate) : Bucket :=
  if r.period ≠ b.period then b else
  let b1 := { b with tpt := tptOf b.period r.average, burst := r.burst }
  if b1.avail > r.burst then { b1 with avail := r.burst } else b1

inductive SRes where
  | ok
  | delay (d : Nat)     -- maximal delay, > 0
  | err
deriving Repr, DecidableEq

def anyErr : List BRes → Bool
  | [] => false
  | .err :: _ => true
  | _ :: rs => anyErr rs

def maxDelay : List BRes → Nat
  | [] => 0
  | .delay d :: rs => max d (maxDelay rs)
  | _ :: rs => maxDelay rs

/-- `TokenBucketSet.Consume`: every bucket is tried, then all are rolled back unless all agreed
    (`firstErr != nil || maxDelay > 0`; Go's `maxDelay` starts at `-1`, which only matters for the
    test `> 0`).  Next to an error Go also returns a map-order dependent delay; dropped. -/
def consumeSet (bs : List Bucket) (now tokens : Nat) : List Bucket × SRes :=
  let rs := bs.map (fun b => b.consume now tokens)
  let bs1 := rs.map (·.1)
  let res := rs.map (·.2)
  if anyErr res then (bs1.map Bucket.rollback, .err)
  else if maxDelay res > 0 then (bs1.map Bucket.rollback, .delay (maxDelay res))
  else (bs1, .ok)

/-- `TokenBucketSet` -/
structure BucketSet where
  buckets : List Bucket
  maxPeriod : Nat
deriving Repr, DecidableEq

def maxPeriodOf (ps : List Nat) : Nat := ps.foldl (fun m p => if m > p then m else p) 0

/-- `NewTokenBucketSet` -/
def BucketSet.new (rates : List Rate) (now : Nat) : BucketSet :=
  { buckets := rates.map (fun r => mkBucket r now), maxPeriod := maxPeriodOf (rates.map (·.period)) }

/-- `TokenBucketSet.Update`: update / delete existing buckets, add the missing ones (full, refreshed
    now), recompute `maxPeriod` -/
def BucketSet.update (s : BucketSet) (rates : List Rate) (now : Nat) : BucketSet :=
  let kept := s.buckets.filterMap (fun b => (lookupRate rates b.period).map (fun r => b.update r))
  let added := (rates.filter (fun r => !(kept.any (fun b => b.period == r.period)))).map (fun r => mkBucket r now)
  let bs := kept ++ added
  { buckets := bs, maxPeriod := maxPeriodOf (bs.map (·.period)) }

/-- `TokenBucketSet.Consume` on the structure -/
def BucketSet.consume (s : BucketSet) (now tokens : Nat) : BucketSet × SRes :=
  ({ s with buckets := (consumeSet s.buckets now tokens).1 }, (consumeSet s.buckets now tokens).2)

/-! ### `TokenLimiter` -/

structure Limiter where
  defaults : List Rate
  sets : TTL.Map BucketSet

def Limiter.new (defaults : List Rate) (capacity : Nat) : Limiter :=
  -- `setDefaults`: `capacity <= 0` ⇒ `DefaultCapacity`
  { defaults := defaults, sets := TTL.empty (if capacity = 0 then 65536 else capacity) }

inductive Resp where
  | ok                  -- next handler invoked (200)
  | tooMany (d : Nat)   -- `MaxRateError{Delay: d}` → 429, `X-Retry-In: d`
  | err                 -- any other error → 500
deriving Repr, DecidableEq

def Resp.ofSRes : SRes → Resp
  | .ok => .ok
  | .delay d => .tooMany d
  | .err => .err

/-- `resolveRates`: the per-request rates if the extractor gave a non-empty set, else the defaults -/
def Limiter.resolve (l : Limiter) (reqRates : List Rate) : List Rate :=
  if reqRates.isEmpty then l.defaults else reqRates

/-- the bucket set `consumeRates` works on: the tracked one brought up to date, or a new one -/
def Limiter.current (l : Limiter) (now : Nat) (src : String) (rates : List Rate) : BucketSet :=
  match (l.sets.get src now).2 with
  | some bs => bs.update rates now
  | none => BucketSet.new rates now

/-- `ttl = int(maxPeriod / clock.Second) * 10 + 1` -/
def ttlOf (s : BucketSet) : Nat := s.maxPeriod / second * 10 + 1

/-- `consumeRates` + the status mapping of `ServeHTTP`.  `victim` is the entry the TTL map's heap hands
    out if room has to be made for a new source (see `TTL.Map.set`). -/
def Limiter.serve (l : Limiter) (now : Nat) (src : String) (amount : Nat) (reqRates : List Rate)
    (victim : String) : Limiter × Resp :=
  let rates := l.resolve reqRates
  let m1 := (l.sets.get src now).1
  let bset := l.current now src rates
  let r := bset.consume now amount
  ({ l with sets := m1.set src r.1 (ttlOf bset) now victim }, Resp.ofSRes r.2)

/-- does this request make the map evict? (then `victim` must satisfy `isMin` on the map after `Get`) -/
def Limiter.evictsAt (l : Limiter) (now : Nat) (src : String) : Bool :=
  (l.sets.get src now).1.evicts src

/-- well-formed bucket at time `t0`: a positive token interval, never more tokens than the burst,
    last refreshed no later than `t0` (every bucket the code creates or has operated on is) -/
def Bucket.WF (b : Bucket) (t0 : Nat) : Prop := 0 < b.tpt ∧ b.avail ≤ b.burst ∧ b.lr ≤ t0

instance (b : Bucket) (t0 : Nat) : Decidable (b.WF t0) := by unfold Bucket.WF; exact inferInstance

/-! ### histories (used by the property statements and by the driver's multi-step ops) -/

/-- one operation on a single bucket as its owner sees it: `consume`, and — when `rb` — the `rollback`
    the bucket set issues because some *other* bucket refused.  Returns the amount that left. -/
def Bucket.step (b : Bucket) (t n : Nat) (rb : Bool) : Bucket × Nat :=
  if rb then ((b.consume t n).1.rollback, 0)
  else ((b.consume t n).1, if (b.consume t n).2 = .ok then n else 0)

/-- amounts that left the bucket along a history of `(time, amount, rolled back?)` -/
def Bucket.run (b : Bucket) : List (Nat × Nat × Bool) → List Nat
  | [] => []
  | (t, n, rb) :: ops => (b.step t n rb).2 :: Bucket.run (b.step t n rb).1 ops

/-- outcomes of a history of `(time, amount)` requests on a bucket set -/
def runSet (bs : List Bucket) : List (Nat × Nat) → List SRes
  | [] => []
  | (t, n) :: ops => (consumeSet bs t n).2 :: runSet (consumeSet bs t n).1 ops

/-- the buckets after the history -/
def afterSet (bs : List Bucket) : List (Nat × Nat) → List Bucket
  | [] => bs
  | (t, n) :: ops => afterSet (consumeSet bs t n).1 ops

/-- admitted amount per request (`0` for a refused one) -/
def admittedSet (bs : List Bucket) : List (Nat × Nat) → List Nat
  | [] => []
  | (t, n) :: ops => (if (consumeSet bs t n).2 = .ok then n else 0) :: admittedSet (consumeSet bs t n).1 ops

/-- `xs[i] + … + xs[j]` -/
def windowSum (xs : List Nat) (i j : Nat) : Nat := ((xs.drop i).take (j + 1 - i)).sum

/-- time stamps never decrease, starting from `t0` -/
def SortedFrom (t0 : Nat) : List Nat → Prop
  | [] => True
  | t :: ts => t0 ≤ t ∧ SortedFrom t ts

/-- one request to the limiter: time, source, amount, and the entry the TTL map's heap hands out
    should room have to be made (ignored otherwise) -/
structure Req where
  t : Nat
  src : String
  amount : Nat
  victim : String
deriving Repr, DecidableEq

/-- responses of the limiter along a history (default rates only) -/
def Limiter.run (l : Limiter) : List Req → List Resp
  | [] => []
  | r :: rs => (l.serve r.t r.src r.amount [] r.victim).2 :: Limiter.run (l.serve r.t r.src r.amount [] r.victim).1 rs

def Limiter.after (l : Limiter) : List Req → Limiter
  | [] => l
  | r :: rs => Limiter.after (l.serve r.t r.src r.amount [] r.victim).1 rs

/-- every eviction along the history takes a legal victim -/
def Limiter.legal (l : Limiter) : List Req → Prop
  | [] => True
  | r :: rs => (l.evictsAt r.t r.src = true → (l.sets.get r.src r.t).1.isMin r.victim = true) ∧
      Limiter.legal (l.serve r.t r.src r.amount [] r.victim).1 rs

/-- the decisions taken for source `s` along an interleaved history -/
def Limiter.decisionsFor (s : String) (l : Limiter) : List Req → List Resp
  | [] => []
  | r :: rs =>
    if r.src = s then (l.serve r.t r.src r.amount [] r.victim).2 :: Limiter.decisionsFor s (l.serve r.t r.src r.amount [] r.victim).1 rs
    else Limiter.decisionsFor s (l.serve r.t r.src r.amount [] r.victim).1 rs

/-- `s` is never the entry that is forgotten to make room for another source -/
def Limiter.spares (s : String) (l : Limiter) : List Req → Prop
  | [] => True
  | r :: rs => (r.src ≠ s → l.evictsAt r.t r.src = true → r.victim ≠ s) ∧
      Limiter.spares s (l.serve r.t r.src r.amount [] r.victim).1 rs

/-- no request of the history makes the map evict -/
def Limiter.noEvict (l : Limiter) : List Req → Prop
  | [] => True
  | r :: rs => l.evictsAt r.t r.src = false ∧ Limiter.noEvict (l.serve r.t r.src r.amount [] r.victim).1 rs

/-- reference semantics of one source: a bucket set created (full) at the source's first request and
    never forgotten -/
def refRun (rates : List Rate) : List (Nat × Nat) → List Resp
  | [] => []
  | (t, n) :: ops => (runSet (BucketSet.new rates t).buckets ((t, n) :: ops)).map Resp.ofSRes

/-- `(time, amount)` of the requests of source `s` -/
def opsOf (s : String) (reqs : List Req) : List (Nat × Nat) :=
  (reqs.filter (fun r => r.src = s)).map (fun r => (r.t, r.amount))

/-- "the burst can refill within the time an idle source is remembered": an entry last used at `t`
    is forgotten only at an access later than `t + 10·⌊maxPeriod/1s⌋ s` (its expiry is
    `⌊t/1s⌋ + 10·⌊maxPeriod/1s⌋ + 1` whole seconds and is refreshed on every access) -/
def RefillWithinTTL (rates : List Rate) : Prop :=
  ∀ r ∈ rates, r.burst * tptOf r.period r.average ≤ 10 * (maxPeriodOf (rates.map (·.period)) / second) * second

/-- admitted amount per request, read off the responses (`0` for a refused one) -/
def admittedOf : List Resp → List (Nat × Nat) → List Nat
  | r :: rs, (_, n) :: ops => (if r = .ok then n else 0) :: admittedOf rs ops
  | _, _ => []

/-! ### histories with per-request rate sets (`ExtractRates`) -/

/-- a request whose rate extractor yields `rates` (`[]` = none / empty ⇒ the default rates) -/
structure ReqR where
  t : Nat
  src : String
  amount : Nat
  rates : List Rate
  victim : String
deriving Repr, DecidableEq

def Limiter.runR (l : Limiter) : List ReqR → List Resp
  | [] => []
  | r :: rs => (l.serve r.t r.src r.amount r.rates r.victim).2 :: Limiter.runR (l.serve r.t r.src r.amount r.rates r.victim).1 rs

def Limiter.decisionsForR (s : String) (l : Limiter) : List ReqR → List Resp
  | [] => []
  | r :: rs =>
    if r.src = s then (l.serve r.t r.src r.amount r.rates r.victim).2 :: Limiter.decisionsForR s (l.serve r.t r.src r.amount r.rates r.victim).1 rs
    else Limiter.decisionsForR s (l.serve r.t r.src r.amount r.rates r.victim).1 rs

def Limiter.sparesR (s : String) (l : Limiter) : List ReqR → Prop
  | [] => True
  | r :: rs => (r.src ≠ s → l.evictsAt r.t r.src = true → r.victim ≠ s) ∧
      Limiter.sparesR s (l.serve r.t r.src r.amount r.rates r.victim).1 rs

def Limiter.noEvictR (l : Limiter) : List ReqR → Prop
  | [] => True
  | r :: rs => l.evictsAt r.t r.src = false ∧ Limiter.noEvictR (l.serve r.t r.src r.amount r.rates r.victim).1 rs

/-! ### the limiter with the TTL map's expiry heap (deterministic eviction) -/

/-- `TokenLimiter` whose `bucketSets` is the map *with* its heap: the eviction victim is the heap top -/
structure HLimiter where
  base : Limiter
  heap : Heap.T

def HLimiter.new (defaults : List Rate) (capacity : Nat) : HLimiter := ⟨Limiter.new defaults capacity, []⟩

def HLimiter.hmap (hl : HLimiter) : TTL.HMap BucketSet := ⟨hl.base.sets, hl.heap⟩

/-- the entry the heap hands out if this request has to make room -/
def HLimiter.victimAt (hl : HLimiter) (now : Nat) (src : String) : String := (hl.hmap.get src now).1.victim

/-- `consumeRates` on the map-with-heap: `Limiter.serve` with the heap's victim, the heap updated alongside -/
def HLimiter.serve (hl : HLimiter) (now : Nat) (src : String) (amount : Nat) (reqRates : List Rate) : HLimiter × Resp :=
  (⟨(hl.base.serve now src amount reqRates (hl.victimAt now src)).1,
    ((hl.hmap.get src now).1.set src
      ((hl.base.current now src (hl.base.resolve reqRates)).consume now amount).1
      (ttlOf (hl.base.current now src (hl.base.resolve reqRates))) now).heap⟩,
   (hl.base.serve now src amount reqRates (hl.victimAt now src)).2)

/-- state after a history of `(time, source, amount, rates)` requests -/
def HLimiter.after (hl : HLimiter) : List (Nat × String × Nat × List Rate) → HLimiter
  | [] => hl
  | (t, s, n, rr) :: rs => HLimiter.after (hl.serve t s n rr).1 rs

end RL
