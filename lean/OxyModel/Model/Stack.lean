/-!
# Stacks of oxy middlewares (C20): transparent or decisive

Core Lean only.  One request travels through a list of layers (outermost first) to a scripted innermost
handler.  Every layer is modelled by exactly what its `ServeHTTP` does with the request, the
`http.ResponseWriter` it hands to `next`, and the response:

* `stream/stream.go:80-88`            — calls `next(w, req)` with the writer it was given.
* `trace/trace.go:49-58`              — wraps `w` in `utils.ProxyWriter`, calls `next` once, writes a record elsewhere.
* `connlimit/connlimit.go:65-81`      — `acquire` fails (`connections >= max`) → `ConnErrHandler` 429 and `return`;
                                         otherwise `next(w, req)` with the same writer.
* `ratelimit/tokenlimiter.go:109-123` — `consumeRates` fails → `RateErrHandler` 429 + `Retry-After` + `X-Retry-In`; else `next(w, req)`.
* `cbreaker/cbreaker.go:100-113,163-175` — `activateFallback` → `fallback.ServeHTTP(w, req)` and `return`; else `next(ProxyWriter(w), req)`.
* `roundrobin/rr.go:59-106`           — `NextServer` error → `errHandler` (`utils.DefaultHandler`: 500); else sticky cookie on `w`, `next(w, req')`.
* `roundrobin/rebalancer.go:120-174`  — same, but `next` gets `utils.ProxyWriter(w)` (the cookie is still set on `w`).
* `buffer/buffer.go`                  — `checkLimit`/`multibuf.New` over `MaxRequestBodyBytes` → `SizeErrHandler` 413; else
                                         `next(bufferWriter, req)`; hijacked → nothing more; response over `MaxResponseBodyBytes` →
                                         `DefaultHandler` 500; else `CopyHeaders`, `WriteHeader(code or 200)`, copy of the body.

`Caps` tracks, for the writer a layer hands inward, whether the Go value *implements* `http.Flusher` /
`http.Hijacker` (type assertion succeeds) and whether the call *reaches the client connection*:
`ProxyWriter` (`utils/netutils.go:66-90`) always implements both and forwards iff the wrapped writer implements them;
`bufferWriter` has no `Flush` method and forwards `Hijack`.
-/
namespace Stack

inductive Kind where
  | stream | trace | connlimit | ratelimit | cbreaker | roundrobin | rebalancer | buffer
  deriving DecidableEq, Repr, Inhabited

/-- `cbreaker.Fallback` option: the default 503 handler, `ResponseFallback{code,"text/fb","fb-body"}`, `RedirectFallback`
(to `http://fallback.verif/x`; `suffix` is what `PreservePath` appends: the path of the request URL as the breaker sees it —
the client's `/p`, or the empty path of the server URL `http://b0` once a balancer in front has re-targeted the request —
and `""` without `PreservePath`). -/
inductive Fallback where
  | dflt | response (code : Nat) | redirect (suffix : String)
  deriving DecidableEq, Repr, Inhabited

/-- Configuration (and, for the stateful layers, the state the configuration has been driven into). -/
structure LayerCfg where
  kind : Kind
  /-- the layer's own admission state is at its limit: connlimit `connections >= max`; ratelimit burst consumed;
  breaker tripped and `now < until`; balancer pool empty.  Ignored by stream / trace / buffer, which have no such state. -/
  tripped : Bool := false
  /-- balancers: name of the sticky-session cookie -/
  sticky : Option String := none
  /-- breaker: fallback handler -/
  fallback : Fallback := .dflt
  /-- buffer: `MaxRequestBodyBytes`, `MaxResponseBodyBytes`; `0` = no limit (the code tests `<= 0` / `> 0`) -/
  maxReq : Nat := 0
  maxResp : Nat := 0
  /-- connlimit: `maxConnections` -/
  limit : Nat := 1
  /-- buffer: `Retry("IsNetworkError() && Attempts() <= 2")` -/
  retry : Bool := false
  /-- the layer's Verbose / Debug / Logger options are switched on (logging only: no effect on the request or response path) -/
  verbose : Bool := false
  /-- ratelimit: the rate period in milliseconds (the harness uses average = burst = 1 for a limiter driven to its limit) -/
  periodMs : Nat := 1000
  deriving DecidableEq, Repr, Inhabited

abbrev Header := String × String

structure Req where
  bodyLen : Nat
  deriving DecidableEq, Repr

/-- Behaviour of the wrapped handler on one request. -/
structure Script where
  /-- `none` = the handler never calls `WriteHeader` (implicit 200) -/
  status : Option Nat
  headers : List Header
  chunks : List (List Nat)
  /-- `k ≥ 1`: call `Flush` (if the writer is an `http.Flusher`) after chunk `k`; `0`: never -/
  flushAfter : Nat
  /-- try `Hijack` first; on success write the raw response on the connection; on failure answer normally -/
  hijack : Bool
  /-- informational responses (`WriteHeader(103)` …) sent before the final status -/
  info : List Nat
  /-- call `Flush` after the headers / `WriteHeader`, before the first body byte -/
  earlyFlush : Bool
  deriving Repr

structure Resp where
  status : Nat
  headers : List Header
  body : List Nat
  deriving DecidableEq, Repr

structure Caps where
  flushIface : Bool
  flushWorks : Bool
  hijackIface : Bool
  hijackWorks : Bool
  deriving DecidableEq, Repr

/-- `net/http`'s own `*response` -/
def Caps.real : Caps := ⟨true, true, true, true⟩
/-- fronts that are not the HTTP/1 server's writer (a recorder, `http.TimeoutHandler`, HTTP/2 …): writers that lack
`Hijack`, `Flush` or both -/
def Caps.noHijack : Caps := ⟨true, true, false, false⟩
def Caps.noFlush : Caps := ⟨false, false, true, true⟩
def Caps.plain : Caps := ⟨false, false, false, false⟩
def Caps.canFlush (c : Caps) : Bool := c.flushIface && c.flushWorks
def Caps.canHijack (c : Caps) : Bool := c.hijackIface && c.hijackWorks
/-- `utils.ProxyWriter`: has `Flush` and `Hijack`; each forwards iff the wrapped writer has the method -/
def Caps.proxy (c : Caps) : Caps := ⟨true, c.canFlush, true, c.canHijack⟩
/-- `buffer.bufferWriter`: no `Flush` method; `Hijack` forwards to the writer the buffer was given -/
def Caps.buffered (c : Caps) : Caps := ⟨false, false, true, c.canHijack⟩

def wrapCaps : Kind → Caps → Caps
  | .stream, c | .connlimit, c | .ratelimit, c | .roundrobin, c => c
  | .trace, c | .cbreaker, c | .rebalancer, c => c.proxy
  | .buffer, c => c.buffered

structure Result where
  resp : Resp
  invoked : Nat
  /-- writer capabilities the handler saw (`none`: not invoked) -/
  seen : Option Caps
  /-- the handler took over the connection; `resp` is what it wrote there itself -/
  hijacked : Bool
  /-- what the handler had written before each of its `Flush` calls reached the client while the handler was running -/
  flushed : Bool
  /-- informational (1xx) `WriteHeader` calls that reach the writer of this level -/
  infos : List Nat
  /-- a final (non-1xx) `WriteHeader` call reaches the writer of this level (otherwise the status is the implicit 200) -/
  explicit : Bool
  deriving DecidableEq, Repr

def ascii (s : String) : List Nat := s.toList.map Char.toNat

/-- `Content-Type` that `net/http` sniffs for the short ASCII bodies of the error handlers (stdlib, assumed) -/
def sniffed : Header := ("Content-Type", "text/plain; charset=utf-8")

/-- Does the layer answer by itself, before calling `next`? -/
def intervenes (l : LayerCfg) (req : Req) : Bool :=
  match l.kind with
  | .stream | .trace => false
  | .connlimit | .ratelimit | .cbreaker | .roundrobin | .rebalancer => l.tripped
  | .buffer => decide (0 < l.maxReq) && decide (l.maxReq < req.bodyLen)

/-- Go's `time.Duration.String()` for a whole number of milliseconds (stdlib formatting, assumed) -/
def goDuration (ms : Nat) : String :=
  if ms = 0 then "0s"
  else if ms < 1000 then toString ms ++ "ms"
  else
    let h := ms / 3600000
    let m := ms % 3600000 / 60000
    let sec := ms % 60000 / 1000
    let frac := ms % 1000
    let fs := if frac = 0 then "" else
      let d := (toString (1000 + frac)).drop 1 |>.toString
      "." ++ (if frac % 100 = 0 then (d.take 1).toString else if frac % 10 = 0 then (d.take 2).toString else d)
    (if h > 0 then toString h ++ "h" else "") ++ (if h > 0 || m > 0 then toString m ++ "m" else "") ++ toString sec ++ fs ++ "s"

/-- `fmt.Sprintf("%.0f", d.Seconds())`: round half to even -/
def retryAfter (ms : Nat) : String :=
  let q := ms / 1000
  let r := ms % 1000
  toString (if r > 500 || (r == 500 && q % 2 == 1) then q + 1 else q)

/-- The response an intervening layer writes (harness configuration of a limiter at its limit: average = burst = 1). -/
def interventionResp (l : LayerCfg) : Resp :=
  match l.kind with
  | .connlimit => ⟨429, [sniffed], ascii ("max connections reached: " ++ toString l.limit)⟩
  | .ratelimit => ⟨429, [sniffed, ("Retry-After", retryAfter l.periodMs), ("X-Retry-In", goDuration l.periodMs)],
      ascii ("max rate reached: retry-in " ++ goDuration l.periodMs)⟩
  | .cbreaker =>
    match l.fallback with
    | .dflt => ⟨503, [sniffed], ascii "Service Unavailable"⟩
    | .response code => ⟨code, [("Content-Type", "text/fb")], ascii "fb-body"⟩
    | .redirect pp => ⟨302, [sniffed, ("Location", "http://fallback.verif/x" ++ pp)], ascii "Found"⟩
  | .roundrobin | .rebalancer => ⟨500, [sniffed], ascii "Internal Server Error"⟩
  | .buffer => ⟨413, [sniffed], ascii "Request Entity Too Large"⟩
  | .stream | .trace => ⟨0, [], []⟩

/-- `utils.DefaultHandler` on a non-network error -/
def internalError : Resp := ⟨500, [sniffed], ascii "Internal Server Error"⟩

/-- Headers a passing layer adds on the writer before calling `next`: the sticky cookie of a balancer
(`StickBackend(url, w)`; pool = {http://b0}, request without cookie). -/
def cookieOf (l : LayerCfg) : List Header :=
  match l.kind, l.sticky with
  | .roundrobin, some n | .rebalancer, some n => [("Set-Cookie", n ++ "=http://b0; Path=/")]
  | _, _ => []

def decorate1 (l : LayerCfg) (r : Resp) : Resp := { r with headers := cookieOf l ++ r.headers }

/-- response-size limit of a buffer (`multibuf` writer: some `Write` fails iff the total exceeds the maximum) -/
def overflows (l : LayerCfg) (bodyLen : Nat) : Bool :=
  match l.kind with
  | .buffer => decide (0 < l.maxResp) && decide (l.maxResp < bodyLen)
  | _ => false

def scriptResp (s : Script) : Resp := ⟨s.status.getD 200, s.headers, s.chunks.flatten⟩

def flushRequested (s : Script) : Bool :=
  s.earlyFlush || (decide (1 ≤ s.flushAfter) && decide (s.flushAfter ≤ s.chunks.length))

/-- The innermost handler, given the writer it receives. -/
def runHandler (s : Script) (c : Caps) : Result :=
  if s.hijack && c.canHijack then
    ⟨scriptResp s, 1, some c, true, false, [], true⟩
  else
    ⟨scriptResp s, 1, some c, false, flushRequested s && c.canFlush, s.info, s.status.isSome⟩

/-- `http.Header.Get` on the (canonical-key) header list: first value or "" -/
def hget : List Header → String → String
  | [], _ => ""
  | (k, v) :: hs, key => if k = key then v else hget hs key

/-- `bufferWriter.expectBody` (`buffer/buffer.go:276-295`) for a non-HEAD request (the harness sends GET/POST; for HEAD
`net/http` sends no body whatever the handler writes): no body for 1xx/204/304, for `Content-Length: 0`, and for a non-empty
`Grpc-Status` other than "0" (deliberate gRPC support: an error status carried in headers has no message). -/
def expectBody (code : Nat) (hs : List Header) : Bool :=
  !((decide (100 ≤ code) && decide (code < 200)) || code == 204 || code == 304)
  && !(hget hs "Content-Length" == "0")
  && !(hget hs "Grpc-Status" != "" && hget hs "Grpc-Status" != "0")

/-- the code `bufferWriter` holds when the handler returns: the last `WriteHeader` call it saw, or the 200 that `Write` sets
while the code is still 0 (results without explicit status carry 200 in `resp.status`) -/
def bwCode (r : Result) : Nat :=
  if r.explicit then r.resp.status
  else match r.infos.getLast? with
    | some c => c
    | none => 200

/-- What a layer's writer does with the `WriteHeader` calls and the body it receives.  Only `bufferWriter` is not a relay:
it keeps the code of the *last* `WriteHeader` call (a 1xx stays if no final status follows), copies the body only if
`expectBody`, and issues one `WriteHeader(code)` at the end (so 1xx responses are swallowed when a final status follows). -/
def relayHeaderCalls (l : LayerCfg) (r : Result) : Result :=
  match l.kind with
  | .buffer =>
    let r' : Result := if expectBody (bwCode r) r.resp.headers then r else { r with resp := { r.resp with body := [] } }
    if r.explicit then { r' with infos := [] }
    else match r.infos.getLast? with
      | some c => { r' with infos := [c] }
      | none => { r' with explicit := true }
  | _ => r

/-- `IsNetworkError()` of `buffer/threshold.go`: the recorded response code is 502 or 504 -/
def netErr (status : Nat) : Bool := status == 502 || status == 504

/-- a buffer configured with the retry predicate -/
def retryBuf (l : LayerCfg) : Bool :=
  match l.kind with
  | .buffer => l.retry
  | _ => false

/-- `buffer.ServeHTTP`'s loop repeats the attempt iff the connection was not hijacked, no write failed and the predicate
`IsNetworkError() && Attempts() <= 2` holds (a result without explicit status carries 200 here, never a network error). -/
def retryable (l : LayerCfg) (r : Result) : Bool :=
  retryBuf l && !r.hijacked && !overflows l r.resp.body.length && netErr r.resp.status

/-- stateless view of the retry loop: every attempt of the same request runs the same inner stack and handler script and ends
the same way, so attempts 1 and 2 are retried, attempt 3 is written out (`Attempts() <= 2` fails): three times the invocations. -/
def retryMul (l : LayerCfg) (r : Result) : Result :=
  if retryable l r then { r with invoked := 3 * r.invoked } else r

/-- What a passing layer does with the result of `next` once it returns. -/
def post (l : LayerCfg) (r : Result) : Result :=
  if r.hijacked then r
  else if overflows l r.resp.body.length then { r with resp := internalError, infos := [], explicit := true }
  else relayHeaderCalls l { r with resp := decorate1 l r.resp }

def serve : List LayerCfg → (Req → Script) → Req → Caps → Result
  | [], h, req, c => runHandler (h req) c
  | l :: ls, h, req, c =>
    if intervenes l req then ⟨interventionResp l, 0, none, false, false, [], true⟩
    else post l (retryMul l (serve ls h req (wrapCaps l.kind c)))

/-- The stack served by `net/http` (outermost layer first). -/
def serveStack (stack : List LayerCfg) (h : Req → Script) (req : Req) : Result :=
  serve stack h req Caps.real

/-! ### Sequences of requests against one stack instance

The admission state of the two counting layers is made explicit: for a connlimit the number of connections of the source
currently inside (`connections[token]`), for a ratelimit the tokens left in the source's bucket (frozen clock: no refill).
`tripped` of these two kinds is then *derived* (`connections >= maxConnections`, no token left).  A handler may end with
`panic(http.ErrAbortHandler)`: the panic unwinds through every layer (none recovers); the only code that still runs is
deferred code — `defer cl.release(token, amount)` in `connlimit/connlimit.go:78`.  A consumed rate token is not given back. -/

/-- effective configuration of a layer in its current state -/
def eff (l : LayerCfg) (n : Nat) : LayerCfg :=
  match l.kind with
  | .connlimit => { l with tripped := decide (l.limit ≤ n) }
  | .ratelimit => { l with tripped := decide (n = 0) }
  | _ => l

/-- state of the first layer (missing entries count as 0) -/
def hd0 (st : List Nat) : Nat := st.headD 0

/-- the stack with its state (one number per layer, by position) -/
def effStack : List LayerCfg → List Nat → List LayerCfg
  | [], _ => []
  | l :: ls, st => eff l (hd0 st) :: effStack ls st.tail

/-- state change on admission: `acquire` adds the connection, `consumeRates` takes a token -/
def enter : Kind → Nat → Nat
  | .connlimit, n => n + 1
  | .ratelimit, n => n - 1
  | _, n => n

/-- state change when `next` returns **or panics**: the deferred `release` -/
def leave : Kind → Nat → Nat
  | .connlimit, n => n - 1
  | _, n => n

inductive Outcome where
  | served (r : Result)
  /-- the handler panicked with `http.ErrAbortHandler` after `invoked` invocations; the client sees a broken response -/
  | aborted (invoked : Nat)
  deriving DecidableEq, Repr

/-- account for the earlier attempts of a retry loop: their handler runs, and the writer capabilities the handler saw then
(if the final attempt never reached it) -/
def Outcome.addInvoked : Outcome → Nat → Option Caps → Outcome
  | .served r, k, seen => .served { r with invoked := r.invoked + k, seen := match r.seen with | some c => some c | none => seen }
  | .aborted i, k, _ => .aborted (i + k)

def Outcome.seenCaps : Outcome → Option Caps
  | .served r => r.seen
  | .aborted _ => none

def Outcome.retryableBy (l : LayerCfg) : Outcome → Bool
  | .served r => retryable l r
  | .aborted _ => false

/-- One request through the stack in its current state; `abort`: the handler ends by panicking.  A retrying buffer runs the
inner stack again *in the state the previous attempt left* (attempts 1 and 2 may be retried, attempt 3 is final). -/
def serveSt : List LayerCfg → List Nat → (Req → Script) → Req → Bool → Caps → Outcome × List Nat
  | [], _, h, req, abort, c => (if abort then .aborted 1 else .served (runHandler (h req) c), [])
  | l :: ls, st, h, req, abort, c =>
    let n := hd0 st
    if intervenes (eff l n) req then (.served ⟨interventionResp (eff l n), 0, none, false, false, [], true⟩, n :: st.tail)
    else
      let c' := wrapCaps l.kind c
      let a1 := serveSt ls st.tail h req abort c'
      let fin : Outcome × List Nat :=
        if a1.1.retryableBy l then
          let a2 := serveSt ls a1.2 h req abort c'
          let k1 := match a1.1 with | .served x => x.invoked | .aborted k => k
          if a2.1.retryableBy l then
            let a3 := serveSt ls a2.2 h req abort c'
            let k2 := match a2.1 with | .served x => x.invoked | .aborted k => k
            (a3.1.addInvoked (k1 + k2) (match a2.1.seenCaps with | some c => some c | none => a1.1.seenCaps), a3.2)
          else (a2.1.addInvoked k1 a1.1.seenCaps, a2.2)
        else a1
      (match fin.1 with
        | .served x => .served (post l x)
        | .aborted k => .aborted k,
       leave l.kind (enter l.kind n) :: fin.2)

/-! ### canonical output used by the driver -/

def adler32 (bs : List Nat) : Nat :=
  let (a, b) := bs.foldl (fun (ab : Nat × Nat) x => let a := (ab.1 + x) % 65521; (a, (ab.2 + a) % 65521)) (1, 0)
  b * 65536 + a

end Stack
