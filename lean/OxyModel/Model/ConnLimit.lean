/-!
# Model of `connlimit/connlimit.go` — per-source connection limiter (core Lean only)

Follows `ConnLimiter.ServeHTTP / acquire / release` branch by branch.

* `connections map[string]int64` is an association list with unique keys; a missing key reads `0`
  (Go map zero value).  `acquire` never deletes (`+= amount` leaves a `0` entry in place), `release`
  deletes the entry when it reads `0` after the subtraction — exactly as the code does.
* `int64` is `Int` (unbounded; overflow unmodelled).
* Concurrency: `acquire` and `release` each run entirely under `cl.mutex`, so they are the atomic
  steps; a request is `start` (extract, acquire, enter `next.ServeHTTP`) … `finish` (leave
  `next.ServeHTTP` by return or by panic; the *deferred* `release` runs on both paths).  The list
  `inflight` is the set of pending deferred `release(token, amount)` calls — one per request that is
  inside the protected handler.
-/
namespace ConnLimit

abbrev Table := List (String × Int)

/-- `m[k]` with Go's zero default -/
def get : Table → String → Int
  | [], _ => 0
  | (k, v) :: t, s => if k = s then v else get t s

/-- `m[k] = v` -/
def put : Table → String → Int → Table
  | [], s, v => [(s, v)]
  | (k, w) :: t, s, v => if k = s then (k, v) :: t else (k, w) :: put t s v

/-- `delete(m, k)` (keys are unique by construction — `put` never duplicates one — so removing every
    entry of `k` is removing *the* entry) -/
def del : Table → String → Table
  | [], _ => []
  | (k, w) :: t, s => if k = s then del t s else (k, w) :: del t s

/-- the fields `connections`, `totalConnections` -/
structure State where
  conns : Table
  total : Int
deriving Repr, DecidableEq

def State.empty : State := ⟨[], 0⟩

/-- `acquire(token, amount)`; `none` = `MaxConnError`.
    `connections := cl.connections[token]; if connections >= cl.maxConnections { return err }`
    `cl.connections[token] += amount; cl.totalConnections += amount` -/
def acquire (st : State) (src : String) (amount max : Int) : Option State :=
  if get st.conns src ≥ max then none
  else some ⟨put st.conns src (get st.conns src + amount), st.total + amount⟩

/-- `release(token, amount)`:
    `cl.connections[token] -= amount; cl.totalConnections -= amount;`
    `if cl.connections[token] == 0 { delete(cl.connections, token) }` -/
def release (st : State) (src : String) (amount : Int) : State :=
  let c := put st.conns src (get st.conns src - amount)
  ⟨if get c src = 0 then del c src else c, st.total - amount⟩

/-- how a request leaves the protected handler -/
inductive Exit where
  | normal
  | panic
deriving Repr, DecidableEq

/-- One atomic step of some request.  `start id src amount`: the extractor returned
    `(src, amount, nil)` (the built-in extractors always give `amount = 1`, cf. C19);
    `startErr id`: the extractor returned an error. -/
inductive Event where
  | start (id src : String) (amount : Int)
  | startErr (id : String)
  | finish (id : String) (how : Exit)
deriving Repr, DecidableEq

inductive Out where
  | admitted          -- inside `next.ServeHTTP`
  | rejected          -- `MaxConnError` → 429
  | extractErr        -- extractor error → error handler (500 by default), limiter untouched
  | released          -- left the handler, deferred `release` ran
  | dup               -- protocol misuse: `start` of an id that is still in flight (no-op)
  | unknown           -- protocol misuse: `finish` of an id that is not in flight (no-op)
deriving Repr, DecidableEq

/-- a request inside the protected handler = a pending deferred `release(src, amount)` -/
structure Req where
  id : String
  src : String
  amount : Int
deriving Repr, DecidableEq

structure Sys where
  max : Int
  st : State
  inflight : List Req
deriving Repr, DecidableEq

def Sys.init (max : Int) : Sys := ⟨max, State.empty, []⟩

def findReq : List Req → String → Option Req
  | [], _ => none
  | r :: t, id => if r.id = id then some r else findReq t id

def dropReq : List Req → String → List Req
  | [], _ => []
  | r :: t, id => if r.id = id then t else r :: dropReq t id

/-- number of requests of `src` inside the protected handler -/
def inflightCount (l : List Req) (src : String) : Nat :=
  (l.filter (fun r => r.src = src)).length

/-- sum of the amounts held by the in-flight requests of `src` -/
def heldBy : List Req → String → Int
  | [], _ => 0
  | r :: t, s => (if r.src = s then r.amount else 0) + heldBy t s

def heldAll : List Req → Int
  | [] => 0
  | r :: t => r.amount + heldAll t

/-- `ServeHTTP` cut at its atomic steps -/
def step (s : Sys) : Event → Sys × Out
  | .start id src amount =>
    match findReq s.inflight id with
    | some _ => (s, .dup)
    | none =>
      match acquire s.st src amount s.max with
      | none => (s, .rejected)
      | some st' => ({ s with st := st', inflight := s.inflight ++ [⟨id, src, amount⟩] }, .admitted)
  | .startErr _ => (s, .extractErr)
  | .finish id _how =>
    -- `defer cl.release(token, amount)`: runs whether `next.ServeHTTP` returns or panics
    match findReq s.inflight id with
    | none => (s, .unknown)
    | some r => ({ s with st := release s.st r.src r.amount, inflight := dropReq s.inflight id }, .released)

/-- state after a history -/
def run (s : Sys) : List Event → Sys
  | [] => s
  | e :: t => run (step s e).1 t

/-- decisions along a history -/
def outs (s : Sys) : List Event → List Out
  | [] => []
  | e :: t => (step s e).2 :: outs (step s e).1 t

/-- The source an event belongs to *in the state it is applied to*: a `start` belongs to its
    extracted source, a `finish` to the source of the request it ends.  Protocol misuse (`dup`,
    `unknown`) and extractor errors belong to nobody: they do not touch the limiter. -/
def owner (s : Sys) : Event → Option String
  | .start id src _ => match findReq s.inflight id with | some _ => none | none => some src
  | .startErr _ => none
  | .finish id _ => (findReq s.inflight id).map (·.src)

/-- the sub-history of source `src` (events owned by `src`) -/
def project (src : String) (s : Sys) : List Event → List Event
  | [] => []
  | e :: t => if owner s e = some src then e :: project src (step s e).1 t else project src (step s e).1 t

/-- the decisions taken for source `src` along a history -/
def decisionsFor (src : String) (s : Sys) : List Event → List Out
  | [] => []
  | e :: t =>
    if owner s e = some src then (step s e).2 :: decisionsFor src (step s e).1 t
    else decisionsFor src (step s e).1 t

end ConnLimit

/-!
## Rejections in progress

`ServeHTTP` answers a failed `acquire` by calling `cl.errHandler.ServeHTTP(w, r, err)` and returns
when that handler returns.  With the default handler this is immediate (`Out.rejected` above).  When
the configured `ErrorHandler` is slow (it logs, dumps the request, or the client reads slowly) the
request stays *inside the error handler* for a while: it is `rejecting`.  In the code a failed
`acquire` has touched nothing and no `release` is pending, so a rejection in progress holds no slot:
the layer below only remembers which ids are parked there; the limiter state `base` moves exactly as
in `step`.  `slow` is the environment's choice (does the error handler park?), not limiter state.
-/
namespace ConnLimit

/-- a request parked inside the error handler after a failed `acquire` -/
structure Rej where
  id : String
  src : String
deriving Repr, DecidableEq

inductive OutR where
  | base (o : Out)
  | rejecting           -- `MaxConnError`, now inside the (slow) error handler
  | rejectedDone        -- the error handler returned: 429 written
deriving Repr, DecidableEq

structure SysR where
  base : Sys
  slow : Bool
  rejecting : List Rej
deriving Repr, DecidableEq

def SysR.init (max : Int) (slow : Bool) : SysR := ⟨Sys.init max, slow, []⟩

def findRej : List Rej → String → Option Rej
  | [], _ => none
  | r :: t, id => if r.id = id then some r else findRej t id

def dropRej : List Rej → String → List Rej
  | [], _ => []
  | r :: t, id => if r.id = id then t else r :: dropRej t id

def stepR (s : SysR) : Event → SysR × OutR
  | .start id src amount =>
    match findRej s.rejecting id with
    | some _ => (s, .base .dup)        -- protocol misuse: the id is still being rejected
    | none =>
      let r := step s.base (.start id src amount)
      if s.slow = true ∧ r.2 = .rejected then
        ({ s with base := r.1, rejecting := s.rejecting ++ [⟨id, src⟩] }, .rejecting)
      else ({ s with base := r.1 }, .base r.2)
  | .startErr id => ({ s with base := (step s.base (.startErr id)).1 }, .base (step s.base (.startErr id)).2)
  | .finish id how =>
    match findRej s.rejecting id with
    | some _ => ({ s with rejecting := dropRej s.rejecting id }, .rejectedDone)
    | none =>
      let r := step s.base (.finish id how)
      ({ s with base := r.1 }, .base r.2)

def runR (s : SysR) : List Event → SysR
  | [] => s
  | e :: t => runR (stepR s e).1 t

def outsR (s : SysR) : List Event → List OutR
  | [] => []
  | e :: t => (stepR s e).2 :: outsR (stepR s e).1 t

/-- a burst of `n` arrivals of one source with ids `pre0 … pre(n-1)`: as atomic steps in id order
    (all arrivals carry the same source and amount, so every order gives the same counts) -/
def burstEvents (pre src : String) (amount : Int) (n : Nat) : List Event :=
  (List.range n).map fun i => .start (pre ++ toString i) src amount

end ConnLimit
