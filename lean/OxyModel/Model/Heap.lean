/-!
# Model of `container/heap` as used by `internal/holsterv4/collections/priority_queue.go` — core Lean only

`pqImpl` is a slice of `*PQItem`; the model is the list of `(key, Priority)` in slice order (`key` = the
`mapElement.key` the item points to).  `PQItem.index` is maintained by `Swap` / `Push` to be the position of
the item in the slice, so the model does not store it: "the item's index" is its position (`indexOf`).
`up`, `down`, `Push`, `Pop`, `Remove` follow `container/heap` statement by statement (`Less` = `Priority <`).
-/
namespace Heap

abbrev Item := String × Nat
abbrev T := List Item

/-- `mh[i].Priority` (0 out of range; never consulted there) -/
def prio (h : T) (i : Nat) : Nat := (h[i]?.map (·.2)).getD 0

/-- `pqImpl.Less` -/
def less (h : T) (i j : Nat) : Bool := decide (prio h i < prio h j)

/-- `pqImpl.Swap` -/
def swap (h : T) (i j : Nat) : T :=
  match h[i]?, h[j]? with
  | some x, some y => (h.set i y).set j x
  | _, _ => h

/-- `heap.up`: `for { i := (j-1)/2; if i == j || !h.Less(j, i) { break }; h.Swap(i, j); j = i }`
    (Go's `(0-1)/2 = 0`, so `j = 0` stops) -/
def up (h : T) (j : Nat) : T :=
  if hj : j = 0 then h
  else if less h j ((j - 1) / 2) then up (swap h ((j - 1) / 2) j) ((j - 1) / 2) else h
termination_by j
decreasing_by omega

/-- the loop of `heap.down`; returns the slice and the final position `i` -/
def downLoop (h : T) (i n : Nat) : T × Nat :=
  if h1 : 2 * i + 1 ≥ n then (h, i)
  else
    if 2 * i + 2 < n ∧ less h (2 * i + 2) (2 * i + 1) = true then
      (if less h (2 * i + 2) i then downLoop (swap h i (2 * i + 2)) (2 * i + 2) n else (h, i))
    else
      (if less h (2 * i + 1) i then downLoop (swap h i (2 * i + 1)) (2 * i + 1) n else (h, i))
termination_by n - i
decreasing_by all_goals omega

/-- `heap.down(h, i0, n)`: the slice and `i > i0` -/
def down (h : T) (i0 n : Nat) : T × Bool :=
  ((downLoop h i0 n).1, decide ((downLoop h i0 n).2 > i0))

/-- `heap.Push`: `h.Push(x); up(h, h.Len()-1)` -/
def push (h : T) (x : Item) : T := up (h ++ [x]) h.length

/-- `heap.Pop`: `n := h.Len()-1; h.Swap(0, n); down(h, 0, n); return h.Pop()` — the slice afterwards -/
def pop (h : T) : T := (down (swap h 0 (h.length - 1)) 0 (h.length - 1)).1.dropLast

/-- `heap.Remove(h, i)`: `n := h.Len()-1; if n != i { h.Swap(i, n); if !down(h, i, n) { up(h, i) } }; return h.Pop()` -/
def removeAt (h : T) (i : Nat) : T :=
  if h.length - 1 ≠ i then
    (if (down (swap h i (h.length - 1)) i (h.length - 1)).2 then (down (swap h i (h.length - 1)) i (h.length - 1)).1
     else up (down (swap h i (h.length - 1)) i (h.length - 1)).1 i).dropLast
  else h.dropLast

/-- `Peek`: `(*p.impl)[0]` -/
def top (h : T) : Option Item := h[0]?

/-- the position of the item of `key` (`el.index`) -/
def indexOf (h : T) (key : String) : Nat := h.findIdx (fun x => x.1 == key)

/-- `PriorityQueue.Remove(el)`: `heap.Remove(p.impl, el.index)` -/
def removeKey (h : T) (key : String) : T :=
  if indexOf h key < h.length then removeAt h (indexOf h key) else h

/-- `PriorityQueue.Update(el, priority)`: `heap.Remove(p.impl, el.index); el.Priority = priority; heap.Push(p.impl, el)` -/
def update (h : T) (key : String) (p : Nat) : T := push (removeKey h key) (key, p)

/-- the heap order: no item has a smaller priority than its parent -/
def Inv (h : T) (n : Nat) : Prop := ∀ k, 0 < k → k < n → prio h ((k - 1) / 2) ≤ prio h k

end Heap
