import OxyModel.Model.Heap

/-!
# Model of `internal/holsterv4/collections/ttlmap.go` (+ `priority_queue.go`) — core Lean only

`TTLMap` = capacity + `elements map[string]*mapElement` + a min-heap of the same elements ordered by
their expiry (`PQItem.Priority`, whole unix seconds).  The model keeps one list of entries
`(key, value, expiry)` with unique keys; the heap is not modelled structurally: the only thing the map
asks of it is "an element of minimal priority" (`Peek`/`Pop`), and which one that is among *equal*
priorities is decided by `container/heap`.  That choice is a parameter (`victim`) of `set`; the
predicate `isMin` says which choices are legal.  Theorems quantify over every legal choice, the driver
checks legality of the choice it is given (or takes the unique minimum when there is only one).

Time: the protocol clock is nanoseconds since `hx.Base` = 2020-01-01T00:00:00Z, a whole number of
seconds after the unix epoch, so `clock.Now().Unix() = BaseUnixSec + now / 10^9`.  Expiries are only
ever compared with `Now().Unix()` and with each other, hence the model drops the common offset
`BaseUnixSec` and works with seconds since Base.
-/
namespace TTL

structure Entry (α : Type) where
  key : String
  val : α
  expiry : Nat          -- `heapEl.Priority` (seconds)

structure Map (α : Type) where
  capacity : Nat
  entries : List (Entry α)

variable {α : Type}

def empty (capacity : Nat) : Map α := ⟨capacity, []⟩

/-- `int(clock.Now().Unix())` -/
def nowSec (now : Nat) : Nat := now / 1000000000

/-- `toEpochSeconds`: `int(clock.Now().Add(time.Second * ttl).Unix())` -/
def expiryAt (now ttl : Nat) : Nat := (now + ttl * 1000000000) / 1000000000

def Map.find? (m : Map α) (k : String) : Option (Entry α) := m.entries.find? (fun e => e.key == k)

def Map.keys (m : Map α) : List String := m.entries.map (·.key)

/-- `delete(m.elements, key)` + `expiryTimes.Remove` -/
def Map.erase (m : Map α) (k : String) : Map α :=
  { m with entries := m.entries.filter (fun e => !(e.key == k)) }

/-- `Get`: a present but expired entry (`Priority <= now`) is deleted and reported missing. -/
def Map.get (m : Map α) (k : String) (now : Nat) : Map α × Option α :=
  match m.find? k with
  | none => (m, none)
  | some e => if e.expiry ≤ nowSec now then (m.erase k, none) else (m, some e.val)

/-- `k` is tracked and no tracked entry expires earlier: `k` may be what `Peek`/`Pop` returns. -/
def Map.isMin (m : Map α) (k : String) : Bool :=
  match m.find? k with
  | none => false
  | some e => m.entries.all (fun e' => e.expiry ≤ e'.expiry)

/-- the first entry of minimal expiry (a legal choice; used when the op line names none) -/
def Map.firstMin (m : Map α) : Option String :=
  match m.entries with
  | [] => none
  | e :: es => some (es.foldl (fun best x => if x.expiry < best.expiry then x else best) e).key

/-- number of entries of minimal expiry (`1` = the eviction victim is forced) -/
def Map.minCount (m : Map α) : Nat :=
  (m.entries.filter (fun e => m.entries.all (fun e' => e.expiry ≤ e'.expiry))).length

/-- `set` of a key that is not tracked has to make room: `len(elements) >= capacity`, and `freeSpace(1)`
    removes the heap top if there is one (`RemoveExpired(1)` pops it when it has expired, otherwise
    `RemoveLastUsed(1)` pops it anyway). -/
def Map.evicts (m : Map α) (k : String) : Bool :=
  (m.find? k).isNone && decide (m.entries.length ≥ m.capacity) && !m.entries.isEmpty

/-- `Set` (ttl already validated `> 0`).  `victim` = the element the heap hands out if room has to be
    made; only consulted when `evicts m k`. -/
def Map.set (m : Map α) (k : String) (v : α) (ttl now : Nat) (victim : String) : Map α :=
  match m.find? k with
  | some _ =>
    { m with entries := m.entries.map (fun e => if e.key == k then { e with val := v, expiry := expiryAt now ttl } else e) }
  | none =>
    let m1 := if m.evicts k then m.erase victim else m
    { m1 with entries := m1.entries ++ [⟨k, v, expiryAt now ttl⟩] }

/-- the victim actually used by the driver: the one named on the op line if it is legal, else the
    model's own (first minimal) -/
def Map.victimOr (m : Map α) (choice : Option String) : String :=
  match choice with
  | some c => if m.isMin c then c else (m.firstMin).getD ""
  | none => (m.firstMin).getD ""

/-! ### the map together with its expiry heap

`TTL.Map` leaves the eviction victim open (`isMin`).  `HMap` adds the heap `expiryTimes` exactly as `ttlmap.go`
drives it — `Push` on insert, `Update` (= `heap.Remove` + `heap.Push`) on refresh, `Remove` when `Get` deletes an
expired entry, `Pop` in `freeSpace` — and takes the victim from it, which makes every step deterministic. -/

structure HMap (α : Type) where
  map : Map α
  heap : Heap.T

def HMap.empty (capacity : Nat) : HMap α := ⟨TTL.empty capacity, []⟩

/-- the key of `expiryTimes.Peek()` -/
def HMap.victim (m : HMap α) : String :=
  match Heap.top m.heap with
  | some x => x.1
  | none => ""

/-- `Get`; deleting an expired entry does `expiryTimes.Remove(mapEl.heapEl)` -/
def HMap.get (m : HMap α) (k : String) (now : Nat) : HMap α × Option α :=
  (⟨(m.map.get k now).1,
    match m.map.find? k with
    | some e => if e.expiry ≤ nowSec now then Heap.removeKey m.heap k else m.heap
    | none => m.heap⟩, (m.map.get k now).2)

/-- `Set`: `expiryTimes.Update` for a tracked key; else `freeSpace(1)` (`RemoveExpired(1)` / `RemoveLastUsed(1)`: both
    `Pop` the heap top) when full, then `expiryTimes.Push` -/
def HMap.set (m : HMap α) (k : String) (v : α) (ttl now : Nat) : HMap α :=
  ⟨m.map.set k v ttl now m.victim,
   match m.map.find? k with
   | some _ => Heap.update m.heap k (expiryAt now ttl)
   | none => Heap.push (if m.map.evicts k then Heap.pop m.heap else m.heap) (k, expiryAt now ttl)⟩

end TTL
