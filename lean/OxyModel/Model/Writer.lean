/-!
# `utils.ProxyWriter` as a transformer of `http.ResponseWriter` calls (utils/netutils.go:13-90)

Core Lean only.  `trace`, `cbreaker` and the `Rebalancer` hand `next` a `utils.ProxyWriter` around the writer they were
given, so a request that crosses several of them writes through a *nest* of ProxyWriters.  The stack model
(`Model/Stack.lean`) abstracts a response to its result; this file models the writer at the level of the individual calls
a handler makes, following the Go methods one by one:

* `WriteHeader(code)`  — `p.code = code; p.w.WriteHeader(code)` (every code, informational ones included)
* `Write(buf)`         — `p.length += len(buf); return p.w.Write(buf)` (also for an empty `buf`)
* `Flush()`            — `if f, ok := p.w.(http.Flusher); ok { f.Flush() }`
* `Hijack()`           — `if hi, ok := p.w.(http.Hijacker); ok { return hi.Hijack() }` else an error
* `StatusCode()`       — `200` when `p.code == 0`, else `p.code`;  `GetLength()` — `p.length`

The innermost wrapped writer is a parameter (`Base`: which optional interfaces it implements).  `Wire` is what `net/http`'s own
server writer makes of the calls that reach it (read from net/http/server.go; stdlib behaviour, assumed, exercised by the C20
stack scenarios): informational codes are sent at once and are not final, the first other `WriteHeader` fixes the status,
later ones are ignored, a `Write` (also an empty one) or a `Flush` before it fixes 200.
-/
namespace Writer

inductive Call where
  | writeHeader (code : Nat)
  | write (bytes : List Nat)
  | flush
  | hijack
  deriving DecidableEq, Repr, Inhabited

/-- optional interfaces of the innermost writer -/
structure Base where
  flusher : Bool
  hijacker : Bool
  deriving DecidableEq, Repr, Inhabited

/-- the fields of one `utils.ProxyWriter` -/
structure PW where
  code : Nat := 0
  length : Nat := 0
  deriving DecidableEq, Repr, Inhabited

def PW.statusCode (p : PW) : Nat := if p.code = 0 then 200 else p.code

/-- A call made by whoever holds the base writer itself: the optional methods are reached through a type assertion.
Returns the calls the base writer receives and whether the caller got the method / no error. -/
def reach (base : Base) : Call → List Call × Bool
  | .flush => if base.flusher then ([.flush], true) else ([], false)
  | .hijack => if base.hijacker then ([.hijack], true) else ([], false)
  | c => ([c], true)

/-- One call on the outermost writer of a nest of ProxyWriters (outermost first) around `base`: the updated nest, the calls
that reach the base writer, and what the caller observes (`Hijack`: no error; `Flush` on a ProxyWriter returns nothing, so it
always "succeeds"; with an empty nest the caller holds the base writer and does the type assertion itself). -/
def call (base : Base) : List PW → Call → List PW × List Call × Bool
  | [], c => ([], reach base c)
  | p :: rest, .writeHeader code =>
    let r := call base rest (.writeHeader code)
    ({ p with code := code } :: r.1, r.2.1, r.2.2)
  | p :: rest, .write b =>
    let r := call base rest (.write b)
    ({ p with length := p.length + b.length } :: r.1, r.2.1, r.2.2)
  | p :: rest, .flush =>
    let r := call base rest .flush
    (p :: r.1, r.2.1, true)
  | p :: rest, .hijack =>
    let r := call base rest .hijack
    (p :: r.1, r.2.1, r.2.2)

structure St where
  pws : List PW
  /-- calls received by the base writer, oldest first -/
  seen : List Call
  deriving DecidableEq, Repr, Inhabited

def St.step (base : Base) (s : St) (c : Call) : St × Bool :=
  let r := call base s.pws c
  (⟨r.1, s.seen ++ r.2.1⟩, r.2.2)

def run (base : Base) (s : St) (cs : List Call) : St := cs.foldl (fun s c => (s.step base c).1) s

def fresh (depth : Nat) : St := ⟨List.replicate depth {}, []⟩

/-- a call is delivered to the base writer iff the base writer has the method -/
def deliverable (base : Base) : Call → Bool
  | .flush => base.flusher
  | .hijack => base.hijacker
  | _ => true

/-- code of the last `WriteHeader` among the calls, if any -/
def lastCode : List Call → Option Nat
  | [] => none
  | c :: cs => match lastCode cs with
    | some k => some k
    | none => match c with
      | .writeHeader k => some k
      | _ => none

def written : List Call → Nat
  | [] => 0
  | .write b :: cs => b.length + written cs
  | _ :: cs => written cs

/-- what `StatusCode()` answers after the calls `cs` on a fresh ProxyWriter -/
def recorded (cs : List Call) : Nat :=
  match lastCode cs with
  | none => 200
  | some k => if k = 0 then 200 else k

/-! ### `net/http`'s server writer (assumed) -/

def informational (code : Nat) : Bool := decide (100 ≤ code) && decide (code ≤ 199) && decide (code ≠ 101)

structure Wire where
  infos : List Nat := []
  status : Option Nat := none
  body : List Nat := []
  deriving DecidableEq, Repr, Inhabited

def Wire.recv (w : Wire) : Call → Wire
  | .writeHeader c =>
    if w.status.isSome then w
    else if informational c then { w with infos := w.infos ++ [c] }
    else { w with status := some c }
  | .write b => { w with status := some (w.status.getD 200), body := w.body ++ b }
  | .flush => { w with status := some (w.status.getD 200) }
  | .hijack => w

def wire (cs : List Call) : Wire := cs.foldl Wire.recv {}

/-- the status the client sees once the handler has returned -/
def Wire.final (w : Wire) : Nat := w.status.getD 200

def noHeader (cs : List Call) : Bool :=
  cs.all fun d => match d with
    | .writeHeader _ => false
    | _ => true

/-- after an informational response: a final `WriteHeader` follows before anything is written -/
def headerFollows : List Call → Bool
  | [] => false
  | .writeHeader c :: cs => if informational c then headerFollows cs else decide (100 ≤ c) && noHeader cs
  | .hijack :: cs => headerFollows cs
  | _ :: _ => false

/-- Handlers for which the recorded status is the status on the wire: no `WriteHeader` at all, or informational codes first,
then exactly one final code (`≥ 100`; `net/http` panics below), before any `Write` / `Flush`, and no `WriteHeader` after it. -/
def orderly : List Call → Bool
  | [] => true
  | .writeHeader c :: cs => if informational c then headerFollows cs else decide (100 ≤ c) && noHeader cs
  | .hijack :: cs => orderly cs
  | _ :: cs => noHeader cs

end Writer
