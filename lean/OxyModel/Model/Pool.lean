import OxyModel.Model.RoundRobin

/-!
# Model of the pool of `roundrobin/rr.go` with real server identities (core Lean only)

`RR.Pool κ` (Model/RoundRobin.lean) is the balancer with an abstract key.  Here the key is what
`sameURL` compares — `(Scheme, Host, Path)` — and every server record owns a `*url.URL` *object*:
a reference into a small heap, so that aliasing between the pool and the request handed to the
downstream handler can be stated.  The key of a record is *read through the reference* each time
(`findServerByURL` compares against the stored object's current fields), so a handler that could
write through an aliased pointer would change the pool — the model does not assume it cannot.

* `UpsertServer`: new server ⇒ `srv.url = utils.CopyURL(u)` = a fresh object holding the URL of
  this *first* insertion (userinfo, query included); existing server ⇒ only the options are applied.
* `NextServer`: selection (`RR.next`) then `utils.CopyURL(srv.url)` = a fresh object.
* `ServeHTTP` (both `RoundRobin` and `Rebalancer` use the same routing code): sticky cookie →
  `GetBackend(req, Servers())` returns the first stored object whose `(scheme,host,path)` equals the
  cookie's, and the request gets `utils.CopyURL(cookieURL)`; otherwise `NextServer()`, an error of
  which goes to the error handler and the downstream handler is not called.
-/
namespace PoolM
open RR

/-- what `sameURL` / `areURLEqual` compare: `(Scheme, Host, Path)` -/
abbrev Key := String × String × String

/-- the fields of a `url.URL` the scenarios vary -/
structure URL where
  scheme : String
  host   : String
  path   : String
  user   : String
  query  : String
deriving Repr, DecidableEq, Inhabited

def URL.key (u : URL) : Key := (u.scheme, u.host, u.path)

/-- canonical printing: `scheme|user|host|path|query` -/
def URL.str (u : URL) : String :=
  u.scheme ++ "|" ++ u.user ++ "|" ++ u.host ++ "|" ++ u.path ++ "|" ++ u.query

/-- a `*url.URL`: index into the heap; allocation appends -/
abbrev Ref := Nat

/-- what a downstream handler does to the `req.URL` object it was handed: rewrite one field, or
    overwrite the object with an arbitrary value.  `set v` for every `v` covers every function
    `f : URL → URL` a handler could apply (its effect on the object is `set (f current)`). -/
inductive Mut where
  | host | path | scheme
  | set (v : URL)
deriving Repr, DecidableEq

def Mut.apply : Mut → URL → URL
  | .host, u => { u with host := "evil" }
  | .path, u => { u with path := "/evil" }
  | .scheme, u => { u with scheme := "evil" }
  | .set v, _ => v

/-- `RoundRobin`: `refs[i]`/`ws[i]` = `servers[i].url`/`.weight`, `it` = (`index`, `currentWeight`) -/
structure Bal where
  refs : List Ref
  ws   : List Nat
  it   : It
  heap : List URL
deriving Repr

namespace Bal

def empty : Bal := ⟨[], [], It.reset, []⟩

def deref (b : Bal) (r : Ref) : URL := b.heap.getD r default

/-- `Servers()`: the stored objects, read now -/
def urls (b : Bal) : List URL := b.refs.map b.deref

/-- the balancer as the `RR.Pool` of C01: keys are read through the references -/
def view (b : Bal) : Pool Key := ⟨b.urls.map URL.key, b.ws, b.it⟩

/-- `UpsertServer(u, Weight(w))` for `w ≥ 0` (`none`: no option) -/
def upsert (b : Bal) (u : URL) (w : Option Nat) : Bal :=
  let p := b.view.upsert u.key w
  match b.view.find u.key with
  | some _ => { b with ws := p.ws, it := p.it }
  | none => { refs := b.refs ++ [b.heap.length], ws := p.ws, it := p.it, heap := b.heap ++ [u] }

/-- `RemoveServer(u)`; `none` = "server not found" -/
def remove (b : Bal) (u : URL) : Option Bal :=
  match b.view.find u.key with
  | some i => some { b with refs := b.refs.eraseIdx i, ws := b.ws.eraseIdx i, it := It.reset }
  | none => none

/-- `ServerWeight(u)` -/
def weight (b : Bal) (k : Key) : Option Nat := b.view.weight k

/-- `NextServer()`: the selection of C01, then `CopyURL(srv.url)` into a fresh object -/
def nextServer (b : Bal) : Res × Option Ref × Bal :=
  let r := b.view.nextServer
  match r.1 with
  | .sel i =>
    (r.1, some b.heap.length, { b with it := r.2.it, heap := b.heap ++ [b.deref (b.refs.getD i 0)] })
  | e => (e, none, { b with it := r.2.it })

/-- `FindURL(cookie, Servers())`: the first stored object with the cookie's key -/
def findRef (b : Bal) (k : Key) : Option Ref :=
  match b.view.find k with
  | some i => some (b.refs.getD i 0)
  | none => none

/-- outcome of the routing part of `ServeHTTP` -/
inductive Routed where
  /-- `newReq.URL = r`; `stuck`: taken from the sticky cookie -/
  | fwd (r : Ref) (stuck : Bool)
  /-- `errHandler.ServeHTTP(w, req, err)`, downstream handler not called -/
  | err (e : Res)
deriving Repr

def route (b : Bal) (sticky : Bool) (cookie : Option Key) : Routed × Bal :=
  let stuck : Option Ref :=
    if sticky then (match cookie with | some k => b.findRef k | none => none) else none
  match stuck with
  | some src => (.fwd b.heap.length true, { b with heap := b.heap ++ [b.deref src] })
  | none =>
    match b.nextServer with
    | (.sel _, some r, b') => (.fwd r false, b')
    | (e, _, b') => (.err e, b')

/-- the downstream handler writes to the object it was handed -/
def mutate (b : Bal) (r : Ref) : Option Mut → Bal
  | none => b
  | some m => { b with heap := b.heap.modify r m.apply }

end Bal

/-! ## Specification: the set defined by the administration calls made so far -/

/-- configured weight of every member; `none` = not a member -/
abbrev Spec := Key → Option Nat

def Spec.empty : Spec := fun _ => none

/-- add / update: a new server gets the given weight (`0` or no option: default 1), an existing one
    keeps its weight unless one is given -/
def Spec.upsert (s : Spec) (k : Key) (w : Option Nat) : Spec := fun k' =>
  if k' = k then
    match s k, w with
    | some old, none => some old
    | some _, some w => some w
    | none, some w => some (if w = 0 then 1 else w)
    | none, none => some 1
  else s k'

def Spec.remove (s : Spec) (k : Key) : Spec := fun k' => if k' = k then none else s k'

end PoolM
