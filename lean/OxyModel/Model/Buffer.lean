import OxyModel.Model.RetryExpr

/-!
# Model of `buffer.Buffer.ServeHTTP` (buffer/buffer.go) with the parts of `mailgun/multibuf` it uses

Core Lean only.  `serve cfg req script` is one client exchange: the request as it reaches the
middleware, the configured `Buffer`, and a script saying what the protected handler does on its
1st, 2nd, … invocation.  The result records what every invocation saw, what `Buffer` sent to the
client's `ResponseWriter`, and the ledger of temporary files.

Followed branch by branch: `checkLimit`, `multibuf.New` (memory/max clamping, `io.LimitedReader`,
spill when the limited reader is exhausted, `maxReader`), `copyRequest`, the retry loop with
`attempt > DefaultMaxRetryAttempts`, `bufferWriter.Write/WriteHeader/Hijack/expectBody/Close`,
`multibuf.writerOnce.write/Reader/Close` (states init/mem/file/calledRead), `SizeErrHandler`,
`utils.DefaultHandler`, and the deferred closes, which all run when `ServeHTTP` returns.
-/
namespace Buf
open RetryExpr (Expr)

abbrev Bytes := List UInt8

/-- `http.Header` with canonical keys: association list key ↦ values -/
abbrev Header := List (String × List String)

namespace Header

/-- `Header.Get`: first value or "" -/
def get (h : Header) (k : String) : String :=
  match h.lookup k with
  | some (v :: _) => v
  | _ => ""

/-- `Header.Add` -/
def add (h : Header) (k v : String) : Header :=
  if h.any (fun e => e.1 == k) then h.map (fun e => if e.1 == k then (e.1, e.2 ++ [v]) else e)
  else h ++ [(k, [v])]

/-- `dst[k] = append(dst[k], vv...)` -/
def appendVals (h : Header) (k : String) (vs : List String) : Header :=
  if h.any (fun e => e.1 == k) then h.map (fun e => if e.1 == k then (e.1, e.2 ++ vs) else e)
  else h ++ [(k, vs)]

/-- `utils.CopyHeaders(dst, src)`: `dst[k] = append(dst[k], vv...)` for every key of `src` (value level) -/
def copyInto (dst src : Header) : Header :=
  src.foldl (fun d e => appendVals d e.1 e.2) dst

end Header

def DefaultMemBodyBytes : Nat := 1048576
def DefaultMaxRetryAttempts : Nat := 10
/-- `multibuf.DefaultMemBytes` -/
def MultibufDefaultMemBytes : Nat := 1048576

def textBytes (s : String) : Bytes := s.toList.map (fun c => c.toNat.toUInt8)

/-! ## configuration, request, handler script -/

/-- the fields of `Buffer` set by `New` and its options (`-1` = `DefaultMaxBodyBytes`) -/
structure Cfg where
  maxReq : Int := -1
  memReq : Nat := DefaultMemBodyBytes
  maxResp : Int := -1
  memResp : Nat := DefaultMemBodyBytes
  retry : Option Expr := none
  /-- whether the `ResponseWriter` handed to `Buffer` implements `http.Hijacker` -/
  canHijack : Bool := true
deriving Repr

/-- the request as received by the middleware.  `chunked = false`: declared `Content-Length` equal
    to the body length; `chunked = true`: `ContentLength = -1`, `TransferEncoding = ["chunked"]`. -/
structure Req where
  method : String
  url : String
  header : Header
  chunked : Bool
  body : Bytes
deriving Repr

def Req.contentLength (r : Req) : Int := if r.chunked then -1 else (r.body.length : Int)

inductive HdrOp where
  | set (k v : String)
  | add (k v : String)
  | del (k : String)
  | set0 (k v : String)
  | setLast (k v : String)
deriving Repr, DecidableEq

/-- what the protected handler does on one invocation, in this order: read from the body, change
    its copy of the request (through the pointers it was given), add response headers, `WriteHeader`,
    `Write` calls, then (late) more response headers and another `WriteHeader`, `Flush`, and finally
    either panic or `Hijack`. -/
structure Attempt where
  /-- `none`: read to EOF; `some k`: read at most `k` bytes -/
  read : Option Nat := none
  hdrOps : List HdrOp := []
  setUrl : Option String := none
  respHdr : List (String × String) := []
  status : Option Nat := none
  writes : List Bytes := []
  /-- response headers added after the writes (the captured map is live until the response is delivered) -/
  lateHdr : List (String × String) := []
  /-- `WriteHeader` after the writes: `bufferWriter.WriteHeader` overwrites the captured code unconditionally -/
  lateStatus : Option Nat := none
  hijack : Bool := false
  /-- the handler asks for `http.Flusher`; `bufferWriter` does not offer it, so nothing happens -/
  flush : Bool := false
  /-- the handler panics (e.g. `http.ErrAbortHandler`) after everything above, instead of returning -/
  panic : Bool := false
deriving Repr

/-! ## `multibuf.New` -/

inductive Err where
  | maxSize   -- *multibuf.MaxSizeReachedError
  | other
deriving Repr, DecidableEq

/-- `multiReaderSeek`: memory part, optional (unlinked) file part, the chained reader's offset -/
structure MultiBuf where
  mem : Bytes
  file : Option Bytes
  length : Nat
  pos : Nat := 0
deriving Repr

def MultiBuf.data (b : MultiBuf) : Bytes := b.mem ++ b.file.getD []

/-- read at most `n` bytes (all when `none`) from the current offset -/
def MultiBuf.read (b : MultiBuf) (n : Option Nat) : Bytes × MultiBuf :=
  let avail := b.data.drop b.pos
  let out := match n with
    | none => avail
    | some k => avail.take k
  (out, { b with pos := b.pos + out.length })

/-- `Seek(0, 0)` -/
def MultiBuf.seek0 (b : MultiBuf) : MultiBuf := { b with pos := 0 }

/-- `o.memBytes` after `if o.memBytes == 0 {…}` and `if o.maxBytes > 0 && o.maxBytes < o.memBytes {…}` -/
def effMem (maxBytes : Int) (memBytes : Nat) : Nat :=
  let m := if memBytes == 0 then MultibufDefaultMemBytes else memBytes
  if maxBytes > 0 ∧ maxBytes < (m : Int) then maxBytes.toNat else m

structure NewRes where
  buf : Except Err MultiBuf
  /-- temp files created / removed by the call (the file is unlinked right after creation) -/
  created : Nat
  removed : Nat

def multibufNew (input : Bytes) (maxBytes : Int) (memBytes : Nat) : NewRes :=
  let mem := effMem maxBytes memBytes
  let buffer := input.take mem                       -- ioutil.ReadAll(LimitedReader{N: mem})
  let n : Int := (mem : Int) - (buffer.length : Int) -- memReader.N afterwards
  if n ≤ 0 then
    -- TempFile + os.Remove, then io.Copy(file, maxReader{Max: max - mem}) when max > 0
    let rest := input.drop mem
    if maxBytes > 0 ∧ (rest.length : Int) > maxBytes - (mem : Int) then
      ⟨.error .maxSize, 1, 1⟩
    else
      ⟨.ok { mem := buffer, file := some rest, length := buffer.length + rest.length }, 1, 1⟩
  else
    ⟨.ok { mem := buffer, file := none, length := buffer.length }, 0, 0⟩

/-! ## `multibuf.NewWriterOnce` -/

inductive WState where
  | init | mem | file | calledRead
deriving Repr, DecidableEq

structure Writer where
  maxBytes : Int
  memBytes : Nat
  state : WState := .init
  memBuf : Bytes := []
  fileBuf : Bytes := []
  /-- `w.file != nil` -/
  fileOpen : Bool := false
  /-- `w.cleanupFn != nil` -/
  hasCleanup : Bool := false
  total : Nat := 0
  /-- ledger of this writer's temporary file -/
  created : Nat := 0
  removed : Nat := 0
  onDisk : Bool := false
deriving Repr

def newWriterOnce (maxBytes : Int) (memBytes : Nat) : Writer :=
  { maxBytes := maxBytes, memBytes := if memBytes == 0 then MultibufDefaultMemBytes else memBytes }

/-- `writeToMem`: how many of `n` bytes still fit in memory -/
def Writer.writeToMem (w : Writer) (n : Nat) : Nat :=
  let left : Int := (w.memBytes : Int) - (w.total : Int)
  if left ≤ 0 then 0 else if (n : Int) < left then n else left.toNat

/-- `writerOnce.write`; the Boolean says an error was returned -/
def Writer.write (w : Writer) (p : Bytes) : Writer × Bool :=
  if w.maxBytes > 0 ∧ (p.length : Int) + (w.total : Int) > w.maxBytes then (w, true)
  else
    match w.state with
    | .calledRead => (w, true)
    | .file => ({ w with fileBuf := w.fileBuf ++ p, total := w.total + p.length }, false)
    | _ =>  -- writerInit falls through to writerMem
      let k := w.writeToMem p.length
      let w1 : Writer := { w with state := .mem, memBuf := w.memBuf ++ p.take k, total := w.total + k }
      if p.length - k = 0 then (w1, false)
      else
        -- initFile, switch to file
        ({ w1 with state := .file, fileOpen := true, hasCleanup := true, created := w1.created + 1,
                   onDisk := true, fileBuf := w1.fileBuf ++ p.drop k, total := w1.total + (p.length - k) }, false)

/-- the `MultiReader` handed out by `Reader()`: its bytes and whether it carries the cleanup function -/
structure Rdr where
  data : Bytes
  cleanup : Bool
deriving Repr

/-- `writerOnce.Reader` (`none` = error) -/
def Writer.reader (w : Writer) : Option (Writer × Rdr) :=
  match w.state with
  | .init => none
  | .calledRead => none
  | .mem => some ({ w with state := .calledRead }, ⟨w.memBuf, false⟩)
  | .file => some ({ w with state := .calledRead, fileOpen := false }, ⟨w.memBuf ++ w.fileBuf, w.hasCleanup⟩)

/-- `Close` of the reader obtained from writer `w`: the cleanup function closes and removes the file -/
def Writer.closeRdr (w : Writer) (r : Rdr) : Writer :=
  if r.cleanup ∧ w.onDisk then { w with onDisk := false, removed := w.removed + 1 } else w

/-- `writerOnce.Close`: closes the descriptor if still owned, removes nothing -/
def Writer.close (w : Writer) : Writer := w

/-! ## `bufferWriter` -/

structure BW where
  header : Header := []
  code : Nat := 0
  buffer : Writer
  hijacked : Bool := false
  written : Bool := false
  writeError : Bool := false
  /-- the call `b.next.ServeHTTP(bw, outReq)` did not return: the handler panicked -/
  panicked : Bool := false
deriving Repr

def BW.write (b : BW) (p : Bytes) : BW :=
  let code := if b.code == 0 then 200 else b.code
  let written := if p.length > 0 then true else b.written
  let r := b.buffer.write p
  { b with code := code, written := written, buffer := r.1, writeError := if r.2 then true else b.writeError }

def BW.writeHeader (b : BW) (code : Nat) : BW := { b with code := code }

/-- `expectBody(r)` -/
def BW.expectBody (b : BW) (method : String) : Bool :=
  if method == "HEAD" then false
  else if (decide (b.code ≥ 100) && decide (b.code < 200)) || b.code == 204 || b.code == 304 then false
  else if Header.get b.header "Content-Length" == "0" then false
  else if Header.get b.header "Grpc-Status" != "" && Header.get b.header "Grpc-Status" != "0" then false
  else true

/-- `bufferWriter.Close`: drain through `Reader()` if that still works, then `buffer.Close()` -/
def BW.close (b : BW) : BW :=
  match b.buffer.reader with
  | some (w, r) => { b with buffer := (w.closeRdr r).close }
  | none => { b with buffer := b.buffer.close }

/-! ## the client's `ResponseWriter` as seen from `Buffer` -/

structure Up where
  header : Header := []
  status : Option Nat := none
  /-- header map at the moment of `WriteHeader` -/
  sentHeader : Header := []
  body : Bytes := []
deriving Repr

def Up.writeHeader (u : Up) (code : Nat) : Up :=
  match u.status with
  | some _ => u
  | none => { u with status := some code, sentHeader := u.header }

def Up.write (u : Up) (p : Bytes) : Up :=
  let u := u.writeHeader 200
  { u with body := u.body ++ p }

/-- `SizeErrHandler.ServeHTTP` falling back to `utils.DefaultHandler` (plain errors ⇒ 500) -/
def sizeErrHandler (u : Up) : Err → Up
  | .maxSize => (u.writeHeader 413).write (textBytes "Request Entity Too Large")
  | .other => (u.writeHeader 500).write (textBytes "Internal Server Error")

/-! ## the store: what is shared and what is fresh

`*http.Request`, `*url.URL`, `http.Header` (a map) and its `[]string` values are references.  The
store makes that explicit so that *sharing* between the client's request and the copies handed to
the handler is expressible: a header map is a list `key ↦ slice id`, a slice id names a backing array
of values, a URL id names a `url.URL` object.  Allocation hands out the next unused id. -/

structure Heap where
  slices : Nat → List String := fun _ => []
  nSlices : Nat := 0
  maps : Nat → List (String × Nat) := fun _ => []
  nMaps : Nat := 0
  urls : Nat → String := fun _ => ""
  nUrls : Nat := 0

/-- a fresh backing array holding `vs` -/
def Heap.allocSlice (h : Heap) (vs : List String) : Heap × Nat :=
  ({ h with slices := fun i => if i = h.nSlices then vs else h.slices i, nSlices := h.nSlices + 1 }, h.nSlices)

/-- a fresh `url.URL` object (`out := *i`) -/
def Heap.allocUrl (h : Heap) (u : String) : Heap × Nat :=
  ({ h with urls := fun i => if i = h.nUrls then u else h.urls i, nUrls := h.nUrls + 1 }, h.nUrls)

/-- a fresh map object with the given entries -/
def Heap.allocMap (h : Heap) (es : List (String × Nat)) : Heap × Nat :=
  ({ h with maps := fun i => if i = h.nMaps then es else h.maps i, nMaps := h.nMaps + 1 }, h.nMaps)

def Heap.setMap (h : Heap) (m : Nat) (es : List (String × Nat)) : Heap :=
  { h with maps := fun i => if i = m then es else h.maps i }

/-- write through a slice reference: every holder of the id sees it -/
def Heap.writeSlice (h : Heap) (s : Nat) (vs : List String) : Heap :=
  { h with slices := fun i => if i = s then vs else h.slices i }

/-- write through a `*url.URL` -/
def Heap.writeUrl (h : Heap) (u : Nat) (v : String) : Heap :=
  { h with urls := fun i => if i = u then v else h.urls i }

/-- the header values reachable from map `m` -/
def Heap.readMap (h : Heap) (m : Nat) : Header := (h.maps m).map (fun e => (e.1, h.slices e.2))

/-- put every value list of `H` into a fresh backing array; returns the entries `key ↦ slice id` -/
def Heap.storeSlices (h : Heap) (H : Header) : Heap × List (String × Nat) :=
  H.foldl (fun acc e => ((acc.1.allocSlice e.2).1, acc.2 ++ [(e.1, (acc.1.allocSlice e.2).2)])) (h, [])

/-- a fresh map all of whose values sit in fresh backing arrays -/
def Heap.storeHeader (h : Heap) (H : Header) : Heap × Nat :=
  (h.storeSlices H).1.allocMap (h.storeSlices H).2

/-- the request as `ServeHTTP` holds it: pointers into the store -/
structure ReqRef where
  method : String
  urlId : Nat
  mapId : Nat

/-- the client's request placed in an empty store -/
def Heap.ofReq (req : Req) : Heap × ReqRef :=
  let h0 : Heap := {}
  let u := h0.allocUrl req.url
  let m := u.1.storeHeader req.header
  (m.1, ⟨req.method, u.2, m.2⟩)

/-- what the handler is given (`&o`): its own struct, and pointers to a URL object and a header map -/
structure OutRef where
  method : String
  urlId : Nat
  mapId : Nat
  contentLength : Int
  transferEncoding : List String

/-- `copyRequest(req, body, totalSize)`: `o := *req`; `o.URL = utils.CopyURL(req.URL)` is a new URL object;
    `o.Header = make(http.Header)` is a new map and `utils.CopyHeaders` fills it with
    `dst[k] = append(dst[k], vv...)` where `dst[k]` starts out nil, i.e. every value list lands in a newly
    allocated backing array.  (The body reader is threaded separately.) -/
def copyRequestH (h : Heap) (r : ReqRef) (size : Nat) : Heap × OutRef :=
  let u := h.allocUrl (h.urls r.urlId)
  let m := u.1.storeHeader (Header.copyInto [] (u.1.readMap r.mapId))
  (m.1, ⟨r.method, u.2, m.2, (size : Int), []⟩)

/-- the request copy as a value -/
structure OutReq where
  method : String
  url : String
  header : Header
  contentLength : Int
  transferEncoding : List String
deriving Repr

/-- what the handler sees when it follows its pointers -/
def Heap.deref (h : Heap) (o : OutRef) : OutReq :=
  ⟨o.method, h.urls o.urlId, h.readMap o.mapId, o.contentLength, o.transferEncoding⟩

/-- the value every attempt is meant to see -/
def copyRequest (req : Req) (size : Nat) : OutReq :=
  { method := req.method, url := req.url, header := Header.copyInto [] req.header,
    contentLength := (size : Int), transferEncoding := [] }

def mapLookup (es : List (String × Nat)) (k : String) : Option Nat := es.lookup k

/-- `m[k] = s` -/
def mapPut (es : List (String × Nat)) (k : String) (s : Nat) : List (String × Nat) :=
  if es.any (fun e => e.1 == k) then es.map (fun e => if e.1 == k then (e.1, s) else e) else es ++ [(k, s)]

/-- a header mutation by the handler, through the map pointer `m` it was given -/
def HdrOp.applyH (h : Heap) (m : Nat) : HdrOp → Heap
  | .set k v =>       -- `h[k] = []string{v}`
    (h.allocSlice [v]).1.setMap m (mapPut (h.maps m) k (h.allocSlice [v]).2)
  | .add k v =>       -- `h[k] = append(h[k], v)`: modelled as a new backing array (an append into spare capacity is
                      -- not visible through any other slice header, whose length is unchanged)
    let old := match mapLookup (h.maps m) k with
      | some s => h.slices s
      | none => []
    (h.allocSlice (old ++ [v])).1.setMap m (mapPut (h.maps m) k (h.allocSlice (old ++ [v])).2)
  | .del k => h.setMap m ((h.maps m).filter (fun e => e.1 != k))
  | .set0 k v =>      -- `h[k][0] = v`: in place
    match mapLookup (h.maps m) k with
    | some s => h.writeSlice s (match h.slices s with | [] => [] | _ :: vs => v :: vs)
    | none => h
  | .setLast k v =>   -- `h[k][len-1] = v`: in place
    match mapLookup (h.maps m) k with
    | some s => h.writeSlice s (match h.slices s with | [] => [] | vs => vs.dropLast ++ [v])
    | none => h

/-- everything the handler does to its request copy: header mutations, then `r.URL.Path = …` -/
def handlerHeap (a : Attempt) (h : Heap) (o : OutRef) : Heap :=
  let h1 := a.hdrOps.foldl (fun h op => HdrOp.applyH h o.mapId op) h
  match a.setUrl with
  | some u => h1.writeUrl o.urlId u
  | none => h1

/-- what an invocation saw on entry, what it read, and the temp files on disk when it returned -/
structure View where
  req : OutReq
  bodyRead : Bytes
  filesAtExit : Nat
deriving Repr

/-- the response half of an invocation: response headers, `WriteHeader`, the `Write` calls, late headers,
    late `WriteHeader`, then panic or `Hijack` -/
def respond (a : Attempt) (bw : BW) (canHijack : Bool) : BW :=
  let bw1 : BW := { bw with header := a.respHdr.foldl (fun h e => Header.add h e.1 e.2) bw.header }
  let bw2 : BW := match a.status with
    | some c => bw1.writeHeader c
    | none => bw1
  let bw3 : BW := a.writes.foldl BW.write bw2
  let bw4 : BW := { bw3 with header := a.lateHdr.foldl (fun h e => Header.add h e.1 e.2) bw3.header }
  let bw5 : BW := match a.lateStatus with
    | some c => bw4.writeHeader c
    | none => bw4
  if a.panic then { bw5 with panicked := true }
  else if a.hijack && canHijack then { bw5 with hijacked := true } else bw5

structure Ran where
  bodyRead : Bytes
  body : Option MultiBuf
  bw : BW
  heap : Heap

def runHandler (a : Attempt) (h : Heap) (o : OutRef) (body : Option MultiBuf) (bw : BW) (canHijack : Bool) : Ran :=
  let rd : Bytes × Option MultiBuf := match body with
    | none => ([], none)                  -- `io.NopCloser(req.Body)`, already at EOF
    | some b => ((b.read a.read).1, some (b.read a.read).2)
  ⟨rd.1, rd.2, respond a bw canHijack, handlerHeap a h o⟩

/-! ## the retry loop -/

inductive Outcome where
  | hijacked
  | final (up : Up)
  | retry
  /-- the handler's panic propagates out of `ServeHTTP`: nothing is written, only the deferred closes run -/
  | panicked
deriving Repr

structure StepRes where
  view : View
  /-- the deferred closes registered by this attempt: `bw.Close()` and, if obtained, `rdr.Close()` -/
  bw : BW
  rdr : Option Rdr
  body : Option MultiBuf
  outcome : Outcome
  heap : Heap

/-- the retry decision of buffer.go: `(pred == nil || attempt > 10) || !pred(ctx)` is *stop* -/
def shouldRetry (cfg : Cfg) (req : Req) (attempt code : Nat) : Bool :=
  match cfg.retry with
  | none => false
  | some e => if attempt > DefaultMaxRetryAttempts then false
              else RetryExpr.compile e ⟨attempt, code, req.method⟩

def deliver (bw : BW) (rdr : Option Rdr) : Up :=
  let up : Up := { header := Header.copyInto [] bw.header }
  let up := up.writeHeader (if bw.code == 0 then 200 else bw.code)
  match rdr with
  | some r => up.write r.data
  | none => up

structure Settled where
  bw : BW
  rdr : Option Rdr
  outcome : Outcome

/-- the part of the `for` body after `b.next.ServeHTTP(bw, outReq)` returned; `method` is `outReq.Method` -/
def settle (cfg : Cfg) (req : Req) (attempt : Nat) (bw : BW) (method : String) : Settled :=
  if bw.panicked then ⟨bw, none, .panicked⟩
  else if bw.hijacked then ⟨bw, none, .hijacked⟩
  else if bw.writeError then ⟨bw, none, .final (sizeErrHandler {} .other)⟩
  else if bw.expectBody method && bw.written then
    match bw.buffer.reader with
    | none => ⟨bw, none, .final (sizeErrHandler {} .other)⟩
    | some (w, r) =>
      let bw' : BW := { bw with buffer := w }
      if shouldRetry cfg req attempt bw.code then ⟨bw', some r, .retry⟩
      else ⟨bw', some r, .final (deliver bw' (some r))⟩
  else
    if shouldRetry cfg req attempt bw.code then ⟨bw, none, .retry⟩
    else ⟨bw, none, .final (deliver bw none)⟩

/-- one pass through the `for` body; `onDisk` = temp files of earlier attempts still on disk.  The request copy is
    made from `ServeHTTP`'s own request `r` in the store as it is *now* (after whatever earlier handlers did). -/
def attemptStep (cfg : Cfg) (req : Req) (r : ReqRef) (size : Nat) (a : Attempt) (attempt : Nat)
    (body : Option MultiBuf) (onDisk : Nat) (h : Heap) : StepRes :=
  let c := copyRequestH h r size
  let ran := runHandler a c.1 c.2 body { buffer := newWriterOnce cfg.maxResp cfg.memResp } cfg.canHijack
  let s := settle cfg req attempt ran.bw c.2.method
  ⟨⟨c.1.deref c.2, ran.bodyRead, onDisk + (if ran.bw.buffer.onDisk then 1 else 0)⟩, s.bw, s.rdr, ran.body, s.outcome, ran.heap⟩

/-- a registered pair of deferred closes, run at return: `rdr.Close()` then `bw.Close()` -/
def runDefers (bw : BW) (rdr : Option Rdr) : BW :=
  let bw1 : BW := match rdr with
    | some r => { bw with buffer := bw.buffer.closeRdr r }
    | none => bw
  bw1.close

structure Result where
  views : List View := []
  /-- what `Buffer` sent to the client's `ResponseWriter` (`status = none`: nothing) -/
  resp : Up := {}
  hijacked : Bool := false
  /-- the handler's panic left `ServeHTTP` (net/http then aborts the connection) -/
  panicked : Bool := false
  /-- temporary files created / removed during the exchange -/
  created : Nat := 0
  removed : Nat := 0
  outOfFuel : Bool := false
deriving Repr

def Result.invocations (r : Result) : Nat := r.views.length

/-- writers (after their deferred closes) of all attempts -/
def closeAll (recs : List (BW × Option Rdr)) : List BW := recs.map (fun e => runDefers e.1 e.2)

def onDiskCount (recs : List (BW × Option Rdr)) : Nat := (recs.filter (fun e => e.1.buffer.onDisk)).length

def finish (up : Up) (hij : Bool) (views : List View) (recs : List (BW × Option Rdr)) (c0 r0 : Nat) : Result :=
  let closed := closeAll recs
  { views := views, resp := up, hijacked := hij,
    created := c0 + (closed.map (fun b => b.buffer.created)).sum,
    removed := r0 + (closed.map (fun b => b.buffer.removed)).sum }

def loop (cfg : Cfg) (req : Req) (r : ReqRef) (script : Nat → Attempt) (size c0 r0 : Nat) :
    Nat → Nat → Option MultiBuf → List View → List (BW × Option Rdr) → Heap → Result
  | 0, _, _, views, recs, _ => { finish {} false views recs c0 r0 with outOfFuel := true }
  | fuel + 1, attempt, body, views, recs, h =>
    let s := attemptStep cfg req r size (script attempt) attempt body (onDiskCount recs) h
    match s.outcome with
    | .hijacked => finish {} true (views ++ [s.view]) ((s.bw, s.rdr) :: recs) c0 r0
    | .panicked => { finish {} false (views ++ [s.view]) ((s.bw, s.rdr) :: recs) c0 r0 with panicked := true }
    | .final up => finish up false (views ++ [s.view]) ((s.bw, s.rdr) :: recs) c0 r0
    | .retry => loop cfg req r script size c0 r0 fuel (attempt + 1) (s.body.map MultiBuf.seek0)
                  (views ++ [s.view]) ((s.bw, s.rdr) :: recs) s.heap

/-- `checkLimit` -/
def checkLimit (cfg : Cfg) (req : Req) : Bool :=
  if cfg.maxReq ≤ 0 then true
  else if req.contentLength > cfg.maxReq then false
  else true

/-- `Buffer.ServeHTTP` for one request; `script k` is the handler's behaviour on its `k`-th invocation (from 1) -/
def serve (cfg : Cfg) (req : Req) (script : Nat → Attempt) : Result :=
  if !checkLimit cfg req then { resp := sizeErrHandler {} .maxSize }
  else
    let nr := multibufNew req.body cfg.maxReq cfg.memReq
    match nr.buf with
    | .error e => { resp := sizeErrHandler {} e, created := nr.created, removed := nr.removed }
    | .ok b =>
      let size := b.length
      let body := if size == 0 then none else some b
      loop cfg req (Heap.ofReq req).2 script size nr.created nr.removed (DefaultMaxRetryAttempts + 1) 1 body [] []
        (Heap.ofReq req).1

end Buf
