import OxyModel.Model.CBreaker
import OxyModel.Model.Hist

/-!
# The circuit breaker with its latency histogram inside the model (core Lean only)

`CB.Brk` (`Model/CBreaker.lean`) takes the values of `LatencyAtQuantileMS(q)` as an oracle.  Here the state is
`CB.Brk × Hist.Rolling` and the oracle is *computed* from the model histogram (`Model/Hist.lean`), following

* `serve` (`cbreaker.go`): `latency := clock.Now().UTC().Sub(start)`; `c.metrics.Record(p.StatusCode(), latency)`
  — `RTMetrics.Record` ends with `recordLatency(duration)`;
* `latencyAtQuantile` (`predicates.go`): every call merges the rolling histogram anew (a pure read: `Merged`
  neither rotates nor looks at the clock), so during one evaluation every call with the same literal
  returns the same value: the list `oracleOf` computed before the evaluation;
* `checkAndSet`: `c.setState(stateTripped, …); c.metrics.Reset()` — the histogram is reset exactly when the
  check trips, `RollingHDRHistogram.Reset` reads the clock (`lastRoll = clock.Now().UTC()`, `idx = 0`): the
  model uses the instant of the check.

`kf num den total` is the float step (`countAtPercentile`), see `Model/Hist.lean`.
-/
namespace CBH
open CB CBExpr

abbrev KF := Nat → Nat → Nat → Nat

/-- `LatencyAtQuantileMS(q)` given the merged histogram; the literal is a `float64` in every well-typed condition -/
def latOfMerged (kf : KF) (m : Hist.H) : Lit → Nat
  | .float num den => Hist.latencyOfMerged kf m num den
  | .int _ => 0

/-- `LatencyAtQuantileMS(q)` on the rolling histogram `r` (every call merges anew) -/
def latOf (kf : KF) (r : Hist.Rolling) (q : Lit) : Nat := latOfMerged kf r.merged q

/-- the values `LatencyAtQuantileMS` returns for the quantile literals of the condition, left to right
    (`Merged()` is a pure read: one merge serves every literal, `oracleOf_eq`) -/
def oracleOf (kf : KF) (c : Cfg) (r : Hist.Rolling) : Oracle :=
  let m := r.merged
  c.cond.quantiles.map fun q => (q, latOfMerged kf m q)

theorem oracleOf_eq (kf : KF) (c : Cfg) (r : Hist.Rolling) :
    oracleOf kf c r = c.cond.quantiles.map fun q => (q, latOf kf r q) := rfl

/-- `metrics.Record(code, latency)`: the counters (`CB.record`) and the histogram -/
def recordH (s : Brk × Hist.Rolling) (now code latNs : Nat) : Brk × Hist.Rolling :=
  (record s.1 now code, s.2.recordLatency now latNs)

/-- `checkAndSet()`: the condition reads the histogram as it is; `c.metrics.Reset()` runs iff the check trips -/
def checkAndSetH (kf : KF) (c : Cfg) (s : Brk × Hist.Rolling) (now : Nat) : (Brk × Hist.Rolling) × Bool :=
  let r := checkAndSet c s.1 now (oracleOf kf c s.2)
  ((r.1, if r.2 then s.2.reset now else s.2), r.2)

/-- the tail of `serve` run without interruption -/
def completeH (kf : KF) (c : Cfg) (s : Brk × Hist.Rolling) (now code latNs : Nat) : (Brk × Hist.Rolling) × Bool :=
  checkAndSetH kf c (recordH s now code latNs) now

/-! ### traces -/

inductive EvH where
  | arrive (now : Nat)
  | record (now code latNs : Nat)
  | check (now : Nat)
  | complete (now code latNs : Nat)
deriving Repr

def stepH (kf : KF) (c : Cfg) (s : Brk × Hist.Rolling) : EvH → (Brk × Hist.Rolling) × Obs
  | .arrive t =>
    let r := arrive c s.1 t
    ((r.2, s.2), match r.1 with | .pass => .pass | .fallback => .fallback)
  | .record t code lat => (recordH s t code lat, .recorded)
  | .check t =>
    let r := checkAndSetH kf c s t
    (r.1, .done r.2)
  | .complete t code lat =>
    let r := completeH kf c s t code lat
    (r.1, .done r.2)

def runH (kf : KF) (c : Cfg) : Brk × Hist.Rolling → List EvH → (Brk × Hist.Rolling) × List Obs
  | s, [] => (s, [])
  | s, e :: es =>
    let r := stepH kf c s e
    let r2 := runH kf c r.1 es
    (r2.1, r.2 :: r2.2)

/-- the event of the oracle model (`CB.Ev`) an event stands for in state `s`: the oracle filled in from the
    histogram as the evaluation will see it -/
def toEv (kf : KF) (c : Cfg) (s : Brk × Hist.Rolling) : EvH → Ev
  | .arrive t => .arrive t
  | .record t code _ => .record t code
  | .check t => .check t (oracleOf kf c s.2)
  | .complete t code lat => .complete t code (oracleOf kf c (s.2.recordLatency t lat))

/-- the trace of the oracle model a trace stands for from state `s` -/
def toTrace (kf : KF) (c : Cfg) : Brk × Hist.Rolling → List EvH → List Ev
  | _, [] => []
  | s, e :: es => toEv kf c s e :: toTrace kf c (stepH kf c s e).1 es

end CBH
