/-!
# Model of `memmetrics.RollingCounter` and `memmetrics.RatioCounter` (core Lean only)

Follows `/repo/memmetrics/counter.go` and `ratio.go` branch by branch.

* Time is `Nat` nanoseconds **since Go's zero `time.Time`** (0001-01-01T00:00:00Z): that is what
  `Time.Truncate` is relative to.  `lu = 0` is the zero `Time` (`clock.Time{}`), the value of
  `lastUpdated` in a fresh or reset counter.
* `UnixNano()` is relative to 1970: `unixEpochNs` is subtracted (truncated subtraction; the theorems
  assume every clock reading is at least one window after 1970, where Go would index a negative
  bucket and panic otherwise).
* Go `int` values are unbounded `Int` (increments may be negative in Go, too).

API used by other models (C18 `RTMetrics`): `Cfg`, `newCounter`, `St`, `St.init`, `inc`, `count`,
`reset`; `Ratio`, `Ratio.init`, `Ratio.incA/incB/ratio/isReady/reset`.
-/
namespace RCnt

/-- `clock.Second` in ns -/
def second : Nat := 1000000000

/-- ns from Go's zero Time to the Unix epoch (what `UnixNano` subtracts) -/
def unixEpochNs : Nat := 62135596800 * 1000000000

/-- the protocol's time base 2020-01-01T00:00:00Z (`hx.Base`) in ns since Go's zero Time -/
def baseSinceZeroNs : Nat := 63713433600 * 1000000000

/-- static part of a counter: `len(values)` and `resolution` (ns) -/
structure Cfg where
  n : Nat
  r : Nat
deriving Repr, DecidableEq

inductive Err where
  | buckets      -- "buckets should be >= 0"
  | resolution   -- "resolution should be larger than a second"
deriving Repr, DecidableEq

/-- `NewCounter(buckets, resolution)`: the two validations, in the code's order -/
def newCounter (buckets resolution : Int) : Except Err Cfg :=
  if buckets ≤ 0 then .error .buckets
  else if resolution < (second : Int) then .error .resolution
  else .ok ⟨buckets.toNat, resolution.toNat⟩

/-- mutable part of a `RollingCounter` -/
structure St where
  vals : List Int          -- values
  counted : Nat            -- countedBuckets
  lastBucket : Int         -- lastBucket, `-1` = none
  lu : Nat                 -- lastUpdated (ns since zero Time; 0 = zero Time)
deriving Repr, DecidableEq

def St.init (c : Cfg) : St := ⟨List.replicate c.n 0, 0, -1, 0⟩

/-- `t.Truncate(resolution)` -/
def Cfg.truncate (c : Cfg) (t : Nat) : Nat := t / c.r * c.r

/-- `getBucket`: `t.Truncate(res).UnixNano() / int64(res) % int64(len(values))` -/
def getBucket (c : Cfg) (t : Nat) : Nat := ((c.truncate t - unixEpochNs) / c.r) % c.n

/-- the loop of `cleanup`: `for i := 0; i < len(values); i++ { if checkPoint.Truncate(res).After(
    lastUpdated.Truncate(res)) { values[getBucket(checkPoint)] = 0 } else { break } }`.
    `fuel` = remaining iterations (`len(values) - i`). -/
def cleanupLoop (c : Cfg) (lu now : Nat) : Nat → Nat → List Int → List Int
  | _, 0, vals => vals
  | i, fuel + 1, vals =>
    let checkPoint := now - i * c.r
    if c.truncate checkPoint > c.truncate lu then
      cleanupLoop c lu now (i + 1) fuel (vals.set (getBucket c checkPoint) 0)
    else vals   -- break

def cleanup (c : Cfg) (s : St) (now : Nat) : St :=
  { s with vals := cleanupLoop c s.lu now 0 c.n s.vals }

/-- `Inc(v)` = `cleanup(); incBucketValue(v)` -/
def inc (c : Cfg) (s : St) (now : Nat) (v : Int) : St :=
  let s1 := cleanup c s now
  let b := getBucket c now
  { vals := s1.vals.set b (s1.vals.getD b 0 + v)
    lu := now
    counted := if s1.counted < c.n ∧ s1.lastBucket ≠ (b : Int) then s1.counted + 1 else s1.counted
    lastBucket := if s1.counted < c.n ∧ s1.lastBucket ≠ (b : Int) then (b : Int) else s1.lastBucket }

/-- `Count()` = `cleanup(); sum()` (a read mutates the counter) -/
def count (c : Cfg) (s : St) (now : Nat) : St × Int :=
  let s1 := cleanup c s now
  (s1, s1.vals.sum)

/-- `Reset()` -/
def reset (s : St) : St := ⟨List.replicate s.vals.length 0, 0, -1, 0⟩

/-- `WindowSize()` -/
def Cfg.windowSize (c : Cfg) : Nat := c.n * c.r

/-- `Clone()`: cleans the receiver up, the copy does *not* carry `countedBuckets` -/
def clone (c : Cfg) (s : St) (now : Nat) : St × St :=
  let s1 := cleanup c s now
  (s1, ⟨s1.vals, 0, s1.lastBucket, s1.lu⟩)

/-- `c.Append(o)` = `c.Inc(int(o.Count()))`; returns (receiver, argument) -/
def append (c : Cfg) (s o : St) (now : Nat) : St × St :=
  let r := count c o now
  (inc c s now r.2, r.1)

/-! ### histories (what the property theorems quantify over) -/

inductive Ev where
  | inc (v : Int)
  | read
  | reset
deriving Repr, DecidableEq

def step (c : Cfg) (s : St) (t : Nat) : Ev → St
  | .inc v => inc c s t v
  | .read => (count c s t).1
  | .reset => reset s

/-- the counter after a history of timed events, from a fresh counter -/
def run (c : Cfg) (h : List (Nat × Ev)) : St :=
  h.foldl (fun s e => step c s e.1 e.2) (St.init c)

/-! ### a live counter and a snapshot of it taken with `Clone()` -/

/-- the live counter and the latest `Clone()` of it (two separate objects in Go) -/
structure Duo where
  live : St
  snap : Option St
deriving Repr, DecidableEq

def Duo.init (c : Cfg) : Duo := ⟨St.init c, none⟩

/-- an event on the live counter, taking a snapshot (`snap = live.Clone()`), an event on the snapshot -/
inductive DEv where
  | live (e : Ev)
  | clone
  | snap (e : Ev)
deriving Repr, DecidableEq

def Duo.step (c : Cfg) (d : Duo) (t : Nat) : DEv → Duo
  | .live e => { d with live := RCnt.step c d.live t e }
  | .clone => let r := clone c d.live t; ⟨r.1, some r.2⟩
  | .snap e => { d with snap := d.snap.map fun s => RCnt.step c s t e }

/-- live counter and snapshot after an arbitrarily interleaved history of events on both -/
def Duo.run (c : Cfg) (h : List (Nat × DEv)) : Duo :=
  h.foldl (fun d e => d.step c e.1 e.2) (Duo.init c)

/-! ### RatioCounter -/

structure Ratio where
  a : St
  b : St
deriving Repr, DecidableEq

/-- `NewRatioCounter` builds two counters with `NewCounter` (same validation, same `Cfg`) -/
def Ratio.init (c : Cfg) : Ratio := ⟨St.init c, St.init c⟩

def Ratio.incA (c : Cfg) (s : Ratio) (now : Nat) (v : Int) : Ratio := { s with a := inc c s.a now v }
def Ratio.incB (c : Cfg) (s : Ratio) (now : Nat) (v : Int) : Ratio := { s with b := inc c s.b now v }

/-- `Ratio()` as the exact integer pair `(num, den)`: `(a, a+b)`, and `(0, 0)` ("return 0") when
    `a + b == 0` -/
def Ratio.ratio (c : Cfg) (s : Ratio) (now : Nat) : Ratio × (Int × Int) :=
  let ra := count c s.a now
  let rb := count c s.b now
  (⟨ra.1, rb.1⟩, if ra.2 + rb.2 = 0 then (0, 0) else (ra.2, ra.2 + rb.2))

/-- `IsReady()`: `a.countedBuckets + b.countedBuckets >= len(a.values)` -/
def Ratio.isReady (s : Ratio) : Bool := decide (s.a.counted + s.b.counted ≥ s.a.vals.length)

def Ratio.reset (s : Ratio) : Ratio := ⟨RCnt.reset s.a, RCnt.reset s.b⟩

inductive REv where
  | incA (v : Int)
  | incB (v : Int)
  | read
  | reset
deriving Repr, DecidableEq

def Ratio.step (c : Cfg) (s : Ratio) (t : Nat) : REv → Ratio
  | .incA v => s.incA c t v
  | .incB v => s.incB c t v
  | .read => (s.ratio c t).1
  | .reset => s.reset

def Ratio.run (c : Cfg) (h : List (Nat × REv)) : Ratio :=
  h.foldl (fun s e => s.step c e.1 e.2) (Ratio.init c)

end RCnt
