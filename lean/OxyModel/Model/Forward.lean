import OxyModel.Model.URL
/-!
# The forwarder (`forward.New`) — what the backend is sent and what the client gets back (C08, C16)

Followed branch by branch from `/repo/forward/{fwd,rewrite,headers,middlewares}.go`, `/repo/utils/handler.go`
and the Director-mode path of `net/http/httputil.ReverseProxy.ServeHTTP` (go 1.23):

  clone → Director (`modifyRequest`; `HeaderRewriter.Rewrite`; `protectForwardingHeaders`; host rule)
        → `cleanQueryParams` on the query if the request's form had been parsed → `upgradeType` → `removeHopByHopHeaders` → `Te: trailers` → upgrade headers → X-Forwarded-For append
        → `User-Agent` guard → `Transport.RoundTrip` (request line = `URL.RequestURI()`, `Host`, headers)
  response: `removeHopByHopHeaders` → copy headers → status → body copy; error → `utils.DefaultHandler`.

`http.Header` is an association list keyed by canonical names (the Go server canonicalises names on read).
Byte strings inside the URL are `List Char` (`FwdURL.Bytes`); header names/values and hosts are `String`.
-/
namespace Fwd
open FwdURL

/-! ## http.Header -/

abbrev Hdr := List (String × List String)

/-- `h[key]` -/
def vals (h : Hdr) (k : String) : List String := (h.lookup k).getD []
/-- `_, ok := h[key]` -/
def has (h : Hdr) (k : String) : Bool := (h.lookup k).isSome
/-- `h.Get(key)` for a canonical key: first value or "" -/
def get (h : Hdr) (k : String) : String := (vals h k).headD ""
/-- `h.Del(key)` -/
def del (h : Hdr) (k : String) : Hdr := h.filter fun e => e.1 ≠ k
/-- `h.Set(key, v)` (position in the list is irrelevant: a Go map; outputs are sorted) -/
def set (h : Hdr) (k v : String) : Hdr := (k, [v]) :: del h k
/-- a sequence of `h.Del` -/
def delAll (ks : List String) (h : Hdr) : Hdr := ks.foldl del h
/-- `h.Add(key, v)` as the server does while reading header lines -/
def add (h : Hdr) (k v : String) : Hdr :=
  if has h k then h.map fun e => if e.1 = k then (e.1, e.2 ++ [v]) else e else h ++ [(k, [v])]

/-! ## textproto / httpguts helpers -/

def validHeaderFieldByte (c : Char) : Bool :=
  isAlnum c || "!#$%&'*+-.^_`|~".toList.contains c

def canonChars (upper : Bool) : List Char → List Char
  | [] => []
  | c :: r =>
    let c' := if upper then c.toUpper else c.toLower
    c' :: canonChars (c' = '-') r

/-- `textproto.CanonicalMIMEHeaderKey` -/
def canonKey (s : String) : String :=
  if s.toList.all validHeaderFieldByte then String.ofList (canonChars true s.toList) else s

def isOWS (c : Char) : Bool := c = ' ' || c = '\t'

/-- `textproto.TrimString` / `httpguts.trimOWS` -/
def trimOWS (s : List Char) : List Char := ((s.dropWhile isOWS).reverse.dropWhile isOWS).reverse

/-- `strings.Split(s, ",")` -/
def splitComma : List Char → List (List Char)
  | [] => [[]]
  | c :: r =>
    match splitComma r with
    | [] => [[]]  -- unreachable
    | x :: xs => if c = ',' then [] :: x :: xs else (c :: x) :: xs

/-- `strings.Join(parts, ",")` -/
def joinComma : List (List Char) → List Char
  | [] => []
  | [x] => x
  | x :: y :: r => x ++ ',' :: joinComma (y :: r)

/-- one element of a comma separated header value as a string, `textproto.TrimString`med -/
def tok (t : List Char) : String := String.ofList (trimOWS t)

/-- the comma separated, trimmed, non-empty elements of all values of a header -/
def tokens (values : List String) : List String :=
  (values.flatMap fun f => (splitComma f.toList).map tok).filter (· ≠ "")

def lowerASCII (s : String) : String := String.ofList (s.toList.map Char.toLower)

/-- `httpguts.HeaderValuesContainsToken` (tokens are ASCII in every use here) -/
def containsToken (values : List String) (tok : String) : Bool :=
  (tokens values).any fun t => lowerASCII t = lowerASCII tok

/-- `ascii.IsPrint` -/
def isPrint (s : String) : Bool := s.toList.all fun c => 0x20 ≤ c.toNat && c.toNat ≤ 0x7e

/-! ## net.SplitHostPort -/

def indexOf? (s : List Char) (c : Char) : Option Nat :=
  let i := s.findIdx (· = c); if i < s.length then some i else none

def lastIndexOf? (s : List Char) (c : Char) : Option Nat :=
  (indexOf? s.reverse c).map fun i => s.length - 1 - i

/-- `net.SplitHostPort`; `none` = any `AddrError` -/
def splitHostPortL (hp : List Char) : Option (List Char × List Char) :=
  match lastIndexOf? hp ':' with
  | none => none
  | some i =>
    if hp.head? = some '[' then
      match indexOf? hp ']' with
      | none => none
      | some e =>
        if e + 1 = hp.length then none
        else if e + 1 = i then
          if (hp.drop 1).contains '[' then none
          else if (hp.drop (e + 1)).contains ']' then none
          else some ((hp.take e).drop 1, hp.drop (i + 1))
        else none
    else
      let host := hp.take i
      if host.contains ':' then none
      else if hp.contains '[' then none
      else if hp.contains ']' then none
      else some (host, hp.drop (i + 1))

def splitHostPort (hp : String) : Option (String × String) :=
  (splitHostPortL hp.toList).map fun r => (String.ofList r.1, String.ofList r.2)

/-- `ipv6fix`: `strings.Split(ip, "%")[0]` -/
def ipv6fix (ip : String) : String := String.ofList (ip.toList.takeWhile (· ≠ '%'))

/-! ## header names (`forward/headers.go`, `reverseproxy.go`) -/

def XForwardedProto := "X-Forwarded-Proto"
def XForwardedFor := "X-Forwarded-For"
def XForwardedHost := "X-Forwarded-Host"
def XForwardedPort := "X-Forwarded-Port"
def XForwardedServer := "X-Forwarded-Server"
def XRealIP := "X-Real-Ip"
def Connection := "Connection"

def XHeaders : List String :=
  [XForwardedProto, XForwardedFor, XForwardedHost, XForwardedPort, XForwardedServer, XRealIP]

/-- `httputil.hopHeaders` -/
def hopHeaders : List String :=
  ["Connection", "Proxy-Connection", "Keep-Alive", "Proxy-Authenticate", "Proxy-Authorization", "Te",
   "Trailer", "Transfer-Encoding", "Upgrade"]

/-! ## the request as the forwarder sees it -/

structure Req where
  /-- `req.Method` (only consulted by the Transport's framing rule) -/
  method : String := "GET"
  /-- `req.RequestURI`: the target exactly as received ("" if the request was built in code) -/
  requestURI : Bytes
  /-- `req.URL` as installed by the caller: the chosen backend -/
  url : URL
  /-- `req.Host` -/
  host : String
  remoteAddr : String
  tls : Bool
  header : Hdr
  /-- `req.ContentLength` -/
  bodyLen : Nat := 0
  /-- `req.Form != nil`: somebody in front of the forwarder called `ParseForm` / `FormValue` (nothing in oxy does) -/
  formParsed : Bool := false

/-- `http.readRequest`: "`req.Host = req.URL.Host; if req.Host == "" { req.Host = Host header }`" — with an
absolute-form target any Host line is ignored (RFC 7230 §5.4) -/
def serverHost (parsedTarget : URL) (hostHeader : String) : String :=
  if parsedTarget.host ≠ "" then parsedTarget.host else hostHeader

structure Cfg where
  passHostHeader : Bool
  /-- `HeaderRewriter.TrustForwardHeader` (`NewHeaderRewriter`: true) -/
  trust : Bool := true
  /-- `HeaderRewriter.Hostname` (`os.Hostname()`) -/
  hostname : String := "HOSTNAME"

/-- `getURLFromRequest` + `modifyRequest` (URL part; the proto fields are constants, see `outProto`) -/
def modifyRequest (r : Req) : Req :=
  let u := if r.requestURI ≠ [] then (parseRequestURI r.requestURI).getD r.url else r.url
  { r with url := { r.url with path := u.path, rawPath := u.rawPath, rawQuery := u.rawQuery, forceQuery := u.forceQuery },
           requestURI := [] }

/-- `outReq.Proto = "HTTP/1.1"` (and the transport only ever writes HTTP/1.1) -/
def outProto : String := "HTTP/1.1"

/-- `forwardedPort` -/
def forwardedPort (host : String) (h : Hdr) (tls : Bool) : String :=
  match splitHostPort host with
  | some (_, port) =>
    if port ≠ "" then port
    else if get h XForwardedProto = "https" || get h XForwardedProto = "wss" then "443"
    else if tls then "443" else "80"
  | none =>
    if get h XForwardedProto = "https" || get h XForwardedProto = "wss" then "443"
    else if tls then "443" else "80"

/-! `HeaderRewriter.Rewrite`, one definition per statement of the Go function -/

/-- `if !rw.TrustForwardHeader { utils.RemoveHeaders(req.Header, XHeaders...) }` -/
def rwTrust (trust : Bool) (h : Hdr) : Hdr := if !trust then delAll XHeaders h else h

/-- the X-Real-Ip block -/
def rwRealIP (remoteAddr : String) (h : Hdr) : Hdr :=
  match splitHostPort remoteAddr with
  | some (ip, _) => if get h XRealIP = "" then set h XRealIP (ipv6fix ip) else h
  | none => h

/-- the X-Forwarded-Proto block -/
def rwProto (tls : Bool) (h : Hdr) : Hdr :=
  if get h XForwardedProto = "" then set h XForwardedProto (if tls then "https" else "http") else h

/-- the X-Forwarded-Port block -/
def rwPort (host : String) (tls : Bool) (h : Hdr) : Hdr :=
  if get h XForwardedPort = "" then set h XForwardedPort (forwardedPort host h tls) else h

/-- the X-Forwarded-Host block -/
def rwHost (host : String) (h : Hdr) : Hdr :=
  if get h XForwardedHost = "" && host ≠ "" then set h XForwardedHost host else h

/-- the X-Forwarded-Server block -/
def rwServer (hostname : String) (h : Hdr) : Hdr :=
  if hostname ≠ "" then set h XForwardedServer hostname else h

/-- `HeaderRewriter.Rewrite` on the header map -/
def rewrite (c : Cfg) (r : Req) : Hdr :=
  rwServer c.hostname (rwHost r.host (rwPort r.host r.tls (rwProto r.tls (rwRealIP r.remoteAddr (rwTrust c.trust r.header)))))

/-- `slices.Contains(XHeaders, CanonicalMIMEHeaderKey(TrimString(token)))` negated -/
def keepTok (t : List Char) : Bool := !XHeaders.contains (canonKey (tok t))

/-- one line of the Connection header inside `protectForwardingHeaders`: the tokens kept, re-joined with "," -/
def protectLine (line : String) : Option String :=
  let kept := (splitComma line.toList).filter keepTok
  if kept = [] then none else some (String.ofList (joinComma kept))

/-- `protectForwardingHeaders` -/
def protectForwardingHeaders (h : Hdr) : Hdr :=
  if !has h Connection then h
  else
    let kept := (vals h Connection).filterMap protectLine
    if kept = [] then del h Connection
    else (Connection, kept) :: del h Connection

/-- the Director installed by `forward.New` -/
def director (c : Cfg) (r : Req) : Req :=
  let r := modifyRequest r
  let r := { r with header := protectForwardingHeaders (rewrite c r) }
  if !c.passHostHeader then { r with host := r.url.host } else r

/-- `upgradeType` -/
def upgradeType (h : Hdr) : String :=
  if containsToken (vals h Connection) "Upgrade" then get h "Upgrade" else ""

/-- `removeHopByHopHeaders` -/
def removeHopByHop (h : Hdr) : Hdr :=
  let h := delAll ((tokens (vals h Connection)).map canonKey) h
  delAll hopHeaders h

/-- the X-Forwarded-For step of `ServeHTTP` (Director mode); `remoteAddr` is the inbound request's -/
def appendXFF (remoteAddr : String) (h : Hdr) : Hdr :=
  match splitHostPort remoteAddr with
  | some (ip, _) =>
    let prior := vals h XForwardedFor
    set h XForwardedFor (if prior ≠ [] then String.intercalate ", " prior ++ ", " ++ ip else ip)
  | none => h

/-- "tell backend applications that care about trailer support that we support trailers": consults the
*incoming* request's header map -/
def stTe (inbound h : Hdr) : Hdr :=
  if containsToken (vals inbound "Te") "trailers" then set h "Te" "trailers" else h

/-- "add back any necessary for protocol upgrades" -/
def stUpgrade (up : String) (h : Hdr) : Hdr :=
  if up ≠ "" then set (set h Connection "Upgrade") "Upgrade" up else h

/-- "don't send the default Go HTTP client User-Agent" -/
def stUserAgent (h : Hdr) : Hdr := if !has h "User-Agent" then set h "User-Agent" "" else h

/-- `ReverseProxy.ServeHTTP` from the Director to the call of `RoundTrip`: the outgoing header map. -/
def outHeader (c : Cfg) (r : Req) : Hdr :=
  let out := director c r
  stUserAgent (appendXFF r.remoteAddr (stUpgrade (upgradeType out.header) (stTe r.header (removeHopByHop out.header))))

/-- headers `http.Transport` writes itself instead of copying them from the map (`reqWriteExcludeHeader`) -/
def transportManaged : List String := ["Host", "User-Agent", "Content-Length", "Transfer-Encoding", "Trailer"]

/-- what one outgoing request looks like on the wire (assumed behaviour of `http.Request.write`) -/
structure Wire where
  /-- request-line target -/
  target : Bytes
  proto : String
  /-- value of the Host header line -/
  host : String
  /-- scheme/host the connection is made to -/
  backend : String × String
  header : Hdr

def wireHeader (h : Hdr) (method : String) (bodyLen : Nat) : Hdr :=
  let h' := delAll transportManaged h
  let h' := if get h "User-Agent" ≠ "" then set h' "User-Agent" (get h "User-Agent") else h'
  -- `transferWriter.shouldSendContentLength`: a body, or a body-less POST / PUT / PATCH
  if bodyLen > 0 || method = "POST" || method = "PUT" || method = "PATCH" then set h' "Content-Length" (toString bodyLen)
  else h'

/-- `if outreq.Form != nil { outreq.URL.RawQuery = cleanQueryParams(outreq.URL.RawQuery) }` — runs right after the
Director, on the clone of the incoming request (which carries its `Form`) -/
def formStep (formParsed : Bool) (u : URL) : URL :=
  if formParsed then { u with rawQuery := cleanQueryParams u.rawQuery } else u

/-- the proxied request, or `none` when `ServeHTTP` refuses the upgrade type (error handler, 500) -/
def serve (c : Cfg) (r : Req) : Option Wire :=
  let out := director c r
  if !isPrint (upgradeType out.header) then none
  else some {
    target := requestURI (formStep r.formParsed out.url)
    proto := outProto
    host := if out.host ≠ "" then out.host else out.url.host
    backend := (out.url.scheme, out.url.host)
    header := wireHeader (outHeader c r) r.method r.bodyLen }

/-! ## response direction (C16) -/

structure Resp where
  status : Nat
  header : Hdr
  /-- abstract body (the driver carries `len:digest`) -/
  body : String
  deriving DecidableEq, Repr

/-- `http.Transport` reading a response (`readTransfer` → `shouldClose(…, removeCloseHeader = true)`, HTTP/1.1):
a Connection header that contains the token `close` is deleted as a whole before the caller sees it. -/
def transportResp (h : Hdr) : Hdr :=
  if containsToken (vals h Connection) "close" then del h Connection else h

/-- `ServeHTTP` after a successful `RoundTrip` (status ≠ 101, no trailers): hop-by-hop headers are removed,
everything else is copied; the body is streamed unchanged. -/
def relay (b : Resp) : Resp := { b with header := removeHopByHop (transportResp b.header) }

/-- what `utils.StdHandler.ServeHTTP` can find out about an error value -/
structure ErrInfo where
  /-- `err.(net.Error)` succeeds -/
  isNetError : Bool
  /-- `e.Timeout()` -/
  timeout : Bool
  /-- `errors.Is(err, io.EOF)` -/
  isEOF : Bool
  /-- `errors.Is(err, context.Canceled)` -/
  isCanceled : Bool
  deriving DecidableEq, Repr

/-- `utils.StdHandler.ServeHTTP`: the status code written -/
def classify (e : ErrInfo) : Nat :=
  if e.isNetError then
    if e.timeout then 504 else 502
  else if e.isEOF then 502
  else if e.isCanceled then 499
  else 500

/-- the kinds of failure the property statement distinguishes -/
inductive ErrKind
  | netTimeout   -- a `net.Error` whose `Timeout()` is true (response-header timeout, dial timeout, deadline)
  | netOther     -- any other `net.Error` (refused, reset, broken pipe: `*net.OpError`)
  | eof          -- the backend closed the connection before the response head (`io.EOF` wrapped)
  | canceled     -- the client's request context was cancelled
  | other        -- anything else (malformed response, invalid upgrade, …)
  deriving DecidableEq, Repr

def ErrKind.info : ErrKind → ErrInfo
  | .netTimeout => ⟨true, true, false, false⟩
  | .netOther => ⟨true, false, false, false⟩
  | .eof => ⟨false, false, true, false⟩
  | .canceled => ⟨false, false, false, true⟩
  | .other => ⟨false, false, false, false⟩

/-- **Assumed stdlib behaviour** (exercised by the correspondence run, not verified): which error value
`http.Transport.RoundTrip` returns for each failure mode the harness can provoke on loopback. -/
inductive FailMode
  | refused      -- nothing listens on the backend address          → `*net.OpError` (ECONNREFUSED)
  | resetBefore  -- RST after the request was read, before any byte → `*net.OpError` (ECONNRESET)
  | closeBefore  -- FIN after the request was read, before any byte → wraps `io.EOF`
  | stall        -- no response head within `ResponseHeaderTimeout` → `net.Error` with `Timeout()`
  | clientCancel -- the client disconnects while the backend stalls → `context.Canceled`
  | garbage      -- the backend answers with bytes that are not HTTP → plain error
  deriving DecidableEq, Repr

def FailMode.kind : FailMode → ErrKind
  | .refused => .netOther
  | .resetBefore => .netOther
  | .closeBefore => .eof
  | .stall => .netTimeout
  | .clientCancel => .canceled
  | .garbage => .other

/-! ## StateListener (`forward/middlewares.go`) over a tiny model of Go's call/defer/panic -/

inductive Event | connected | disconnected
  deriving DecidableEq, Repr

/-- how the wrapped handler ends -/
inductive Outcome
  | ret
  | panic (v : String)
  deriving DecidableEq, Repr

/-- statements of a straight-line Go function body -/
inductive Stmt
  | call (e : Event)        -- `s.stateListener(req.URL, e)`
  | deferCall (e : Event)   -- `defer s.stateListener(req.URL, e)`
  | next                    -- `s.next.ServeHTTP(rw, req)`

/-- run a body: statements in order until one panics; registered defers then run last-in first-out whether the
body returned or panicked; the panic (if any) propagates to the caller. -/
def execBody (next : Outcome) : List Stmt → List Event → List Event × Outcome
  | [], defers => (defers, .ret)
  | .call e :: rest, defers => let r := execBody next rest defers; (e :: r.1, r.2)
  | .deferCall e :: rest, defers => execBody next rest (e :: defers)
  | .next :: rest, defers =>
    match next with
    | .ret => execBody next rest defers
    | .panic v => (defers, .panic v)

/-- `StateListener.ServeHTTP` as it is in the repository -/
def stateListenerBody : List Stmt := [.call .connected, .deferCall .disconnected, .next]

def stateListener (next : Outcome) : List Event × Outcome := execBody next stateListenerBody []

/-- the body before commit f2f1ab2 (kept to show the model tells them apart) -/
def stateListenerBodyOld : List Stmt := [.call .connected, .next, .call .disconnected]

/-- `ServeHTTP` from the successful `RoundTrip` to its end, for a backend that announced (or would have sent)
`bodyLen` body bytes and delivered only `sent` of them before the connection broke (`none`: all of them).
The head (`relay b`) has been written to the client before the first body byte is copied; when `copyResponse`
fails the handler ends with `panic(http.ErrAbortHandler)` and the client is left with a truncated transfer.
Result: the head the client was sent, whether the body was completed, how the handler ended. -/
def relayOutcome (b : Resp) (bodyLen : Nat) (sent : Option Nat) : Resp × Bool × Outcome :=
  match sent with
  | some k => if k < bodyLen then (relay b, false, .panic "net/http: abort Handler") else (relay b, true, .ret)
  | none => (relay b, true, .ret)

end Fwd
