/-!
# Model of the parts of `net/url` that sticky sessions depend on (core Lean only)

`stickycookie` identifies a server by `(Scheme, Host, Path)` of a `*url.URL`, mints cookie values from
`URL.String()` and finds the server again through `url.Parse`.  This file transcribes, function by
function, `net/url` (go 1.23): `shouldEscape`, `unescape`, `escape`, `getScheme`, `Parse`/`parse`,
`parseAuthority`, `parseHost`, `validOptionalPort`, `validUserinfo`, `setPath`, `EscapedPath`,
`validEncoded`, `setFragment`, `EscapedFragment`, `Userinfo.String`, `URL.String`.

Go strings are byte strings: a `Str` is a list of characters each of which stands for one byte
(code < 256).  Every recursion is structural so that the definitions evaluate in the kernel (`decide`).
`net/url` is standard-library code: modelled here, validated by the correspondence run, not verified.
-/
namespace Sticky

abbrev Str := List Char

/-! ## small string helpers (`strings.Cut`, `LastIndex`, `Index`, `HasPrefix`) -/

/-- `strings.Cut(s, c)`: (before, after, found) -/
def cut (c : Char) (s : Str) : Str × Str × Bool :=
  match s.dropWhile (· != c) with
  | [] => (s, [], false)
  | _ :: t => (s.takeWhile (· != c), t, true)

/-- split at the LAST occurrence of `c` (`strings.LastIndex`): `(s[:i], s[i+1:])` -/
def cutLast (c : Char) (s : Str) : Option (Str × Str) :=
  match s.reverse.dropWhile (· != c) with
  | [] => none
  | _ :: t => some (t.reverse, (s.reverse.takeWhile (· != c)).reverse)

/-- `strings.Index(s, pat)`: `(s[:i], s[i:])` -/
def splitAtSub (pat : Str) : Str → Option (Str × Str)
  | [] => if pat.isPrefixOf [] then some ([], []) else none
  | c :: t =>
    if pat.isPrefixOf (c :: t) then some ([], c :: t)
    else match splitAtSub pat t with
      | some (a, b) => some (c :: a, b)
      | none => none

def isAlpha (c : Char) : Bool := ('a' ≤ c && c ≤ 'z') || ('A' ≤ c && c ≤ 'Z')
def isDigit (c : Char) : Bool := '0' ≤ c && c ≤ '9'
def toLowerC (c : Char) : Char := if 'A' ≤ c ∧ c ≤ 'Z' then Char.ofNat (c.toNat + 32) else c

def ishex (c : Char) : Bool := isDigit c || ('a' ≤ c && c ≤ 'f') || ('A' ≤ c && c ≤ 'F')
def unhex (c : Char) : Nat :=
  if isDigit c then c.toNat - 48
  else if 'a' ≤ c ∧ c ≤ 'f' then c.toNat - 97 + 10
  else if 'A' ≤ c ∧ c ≤ 'F' then c.toNat - 65 + 10
  else 0
/-- `upperhex[n]` -/
def hexDigit (n : Nat) : Char := Char.ofNat (if n < 10 then 48 + n else 55 + n)

/-! ## escaping -/

inductive Enc where
  | path | host | zone | userPassword | fragment
deriving DecidableEq, Repr

/-- `shouldEscape(c, mode)` -/
def shouldEscape (c : Char) (mode : Enc) : Bool :=
  if isAlpha c || isDigit c then false
  else if (mode == .host || mode == .zone) &&
      ['!', '$', '&', '\'', '(', ')', '*', '+', ',', ';', '=', ':', '[', ']', '<', '>', '"'].contains c then false
  else if ['-', '_', '.', '~'].contains c then false
  else if ['$', '&', '+', ',', '/', ':', ';', '=', '?', '@'].contains c then
    match mode with
    | .path => c == '?'
    | .userPassword => c == '@' || c == '/' || c == '?' || c == ':'
    | .fragment => false
    | _ => true
  else if mode == .fragment && ['!', '(', ')', '*'].contains c then false
  else true

/-- `unescape(s, mode)`; `none` = EscapeError / InvalidHostError -/
def unescape (mode : Enc) : Str → Option Str
  | [] => some []
  | c :: rest =>
    if c = '%' then
      match rest with
      | a :: b :: rest' =>
        if ishex a && ishex b then
          let v := Char.ofNat (unhex a * 16 + unhex b)
          let is25 := a == '2' && b == '5'
          if mode == .host && unhex a < 8 && !is25 then none
          else if mode == .zone && !is25 && v != ' ' && shouldEscape v .host then none
          else (unescape mode rest').map (v :: ·)
        else none
      | _ => none
    else if (mode == .host || mode == .zone) && c.toNat < 0x80 && shouldEscape c mode then none
    else (unescape mode rest).map (c :: ·)

def escByte (c : Char) : Str := ['%', hexDigit (c.toNat / 16), hexDigit (c.toNat % 16)]

/-- `escape(s, mode)` -/
def escape (mode : Enc) (s : Str) : Str :=
  s.flatMap fun c => if shouldEscape c mode then escByte c else [c]

/-- `validEncoded(s, mode)` -/
def validEncoded (mode : Enc) (s : Str) : Bool :=
  s.all fun c =>
    ['!', '$', '&', '\'', '(', ')', '*', '+', ',', ';', '=', ':', '@', '[', ']', '%'].contains c ||
      !shouldEscape c mode

/-! ## the URL structure -/

structure URL where
  scheme : Str := []
  opaq : Str := []
  /-- `*Userinfo`: username, and the password when `passwordSet` -/
  user : Option (Str × Option Str) := none
  host : Str := []
  path : Str := []
  rawPath : Str := []
  omitHost : Bool := false
  forceQuery : Bool := false
  rawQuery : Str := []
  fragment : Str := []
  rawFragment : Str := []
deriving DecidableEq, Repr

/-- what `sameURL` / `areURLEqual` compare -/
abbrev Key := Str × Str × Str
def URL.key (u : URL) : Key := (u.scheme, u.host, u.path)

/-! ## parsing -/

/-- `getScheme`; `none` = "missing protocol scheme" -/
def getSchemeGo (raw : Str) : Str → Str → Option (Str × Str)
  | [], _ => some ([], raw)
  | c :: rest, acc =>
    if isAlpha c then getSchemeGo raw rest (c :: acc)
    else if isDigit c || c == '+' || c == '-' || c == '.' then
      if acc = [] then some ([], raw) else getSchemeGo raw rest (c :: acc)
    else if c = ':' then
      if acc = [] then none else some (acc.reverse, rest)
    else some ([], raw)

def getScheme (raw : Str) : Option (Str × Str) := getSchemeGo raw raw []

def containsCTL (s : Str) : Bool := s.any fun c => c.toNat < 0x20 || c.toNat == 0x7f

def validOptionalPort (port : Str) : Bool :=
  match port with
  | [] => true
  | c :: t => c == ':' && t.all isDigit

def validUserinfo (s : Str) : Bool :=
  s.all fun c => isAlpha c || isDigit c ||
    ['-', '.', '_', ':', '~', '!', '$', '&', '\'', '(', ')', '*', '+', ',', ';', '=', '%', '@'].contains c

/-- `parseHost` -/
def parseHost (host : Str) : Option Str :=
  if host.head? = some '[' then
    match cutLast ']' host with
    | none => none
    | some (pre, colonPort) =>
      if !validOptionalPort colonPort then none
      else
        match splitAtSub ['%', '2', '5'] pre with
        | some (h1, z) =>
          -- host[:zone], host[zone:i], host[i:]
          match unescape .host h1, unescape .zone z, unescape .host (']' :: colonPort) with
          | some a, some b, some c => some (a ++ b ++ c)
          | _, _, _ => none
        | none => unescape .host host
  else
    match cutLast ':' host with
    | some (_, port) => if !validOptionalPort (':' :: port) then none else unescape .host host
    | none => unescape .host host

/-- `parseAuthority` -/
def parseAuthority (authority : Str) : Option (Option (Str × Option Str) × Str) :=
  match cutLast '@' authority with
  | none => (parseHost authority).map fun h => (none, h)
  | some (userinfo, hostPart) =>
    match parseHost hostPart with
    | none => none
    | some host =>
      if !validUserinfo userinfo then none
      else if !userinfo.contains ':' then
        (unescape .userPassword userinfo).map fun n => (some (n, none), host)
      else
        let (username, password, _) := cut ':' userinfo
        match unescape .userPassword username, unescape .userPassword password with
        | some n, some p => some (some (n, some p), host)
        | _, _ => none

/-- `(*URL).setPath` -/
def setPath (u : URL) (p : Str) : Option URL :=
  match unescape .path p with
  | none => none
  | some path => some { u with path := path, rawPath := if p = escape .path path then [] else p }

/-- `parse(rawURL, viaRequest = false)` (the argument has no fragment any more) -/
def parseNoFrag (raw : Str) : Option URL :=
  if containsCTL raw then none
  else if raw = ['*'] then some { path := ['*'] }
  else
    match getScheme raw with
    | none => none
    | some (sch, rest0) =>
      let sch := sch.map toLowerC
      let q : Str × Str × Bool :=
        if rest0.getLast? = some '?' && rest0.count '?' == 1 then (rest0.dropLast, [], true)
        else let c := cut '?' rest0; (c.1, c.2.1, false)
      let rest := q.1
      let u0 : URL := { scheme := sch, rawQuery := q.2.1, forceQuery := q.2.2 }
      if rest.head? != some '/' && sch != [] then some { u0 with opaq := rest }
      else if rest.head? != some '/' && (cut '/' rest).1.contains ':' then none
      else if (sch != [] || !(['/', '/', '/'].isPrefixOf rest)) && ['/', '/'].isPrefixOf rest then
        let a := ((rest.drop 2).takeWhile (· != '/'), (rest.drop 2).dropWhile (· != '/'))
        match parseAuthority a.1 with
        | none => none
        | some (user, host) => setPath { u0 with user := user, host := host } a.2
      else if sch != [] && rest.head? = some '/' then setPath { u0 with omitHost := true } rest
      else setPath u0 rest

/-- `(*URL).setFragment` -/
def setFragment (u : URL) (f : Str) : Option URL :=
  match unescape .fragment f with
  | none => none
  | some frag => some { u with fragment := frag, rawFragment := if f = escape .fragment frag then [] else f }

/-- `url.Parse` -/
def parse (raw : Str) : Option URL :=
  let c := cut '#' raw
  match parseNoFrag c.1 with
  | none => none
  | some u => if c.2.1 = [] then some u else setFragment u c.2.1

/-! ## rendering -/

/-- `(*URL).EscapedPath` -/
def escapedPath (u : URL) : Str :=
  if u.rawPath != [] && validEncoded .path u.rawPath && unescape .path u.rawPath = some u.path then u.rawPath
  else if u.path = ['*'] then ['*']
  else escape .path u.path

/-- `(*URL).EscapedFragment` -/
def escapedFragment (u : URL) : Str :=
  if u.rawFragment != [] && validEncoded .fragment u.rawFragment
      && unescape .fragment u.rawFragment = some u.fragment then u.rawFragment
  else escape .fragment u.fragment

/-- `(*Userinfo).String` followed by `@` -/
def userinfoAt : Option (Str × Option Str) → Str
  | none => []
  | some (n, none) => escape .userPassword n ++ ['@']
  | some (n, some p) => escape .userPassword n ++ [':'] ++ escape .userPassword p ++ ['@']

/-- `(*URL).String` -/
def render (u : URL) : Str :=
  let s1 : Str := if u.scheme != [] then u.scheme ++ [':'] else []
  let tail : Str :=
    (if u.forceQuery || u.rawQuery != [] then '?' :: u.rawQuery else []) ++
    (if u.fragment != [] then '#' :: escapedFragment u else [])
  if u.opaq != [] then s1 ++ u.opaq ++ tail
  else
    let auth : Str :=
      if u.scheme != [] || u.host != [] || u.user.isSome then
        if u.omitHost && u.host = [] && u.user.isNone then []
        else
          (if u.host != [] || u.path != [] || u.user.isSome then ['/', '/'] else []) ++
          userinfoAt u.user ++ (if u.host != [] then escape .host u.host else [])
      else []
    let path := escapedPath u
    let slash : Str := if path != [] && path.head? != some '/' && u.host != [] then ['/'] else []
    let pre := s1 ++ auth ++ slash
    let dot : Str := if pre = [] && (cut '/' path).1.contains ':' then ['.', '/'] else []
    pre ++ dot ++ path ++ tail

/-- `stickycookie.normalized`: `url.URL{Scheme, Host, Path}.String()` -/
def normalized (u : URL) : Str := render { scheme := u.scheme, host := u.host, path := u.path }

end Sticky
