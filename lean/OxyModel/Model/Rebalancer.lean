import OxyModel.Model.Pool

/-!
# Model of `roundrobin/rebalancer.go` on top of the balancer of `Model/Pool.lean` (core Lean only)

`Reb` = the rebalancer's shadow records (`rbServer`: url, origWeight, curWeight, meter) + `timer` +
`backoffDuration`, wrapping a `Bal`.  Follows the Go code call by call:

* `UpsertServer` = (existing record: derive the configured weight from `origWeight` and the options,
  pass it on as the only option), `next.UpsertServer`, `next.ServerWeight`, `upsertServer` (update
  `origWeight` of an existing record and **return**; else append a record with a new meter), `reset`.
* `RemoveServer` = `findServer` (error), `next.RemoveServer` (error), delete record, `reset`.
* `reset` = every record: `cur = orig`, `next.UpsertServer(url, Weight(orig))`; `timer = now − 1s`.
* `adjustWeights` = `len < 2` / `metricsReady` / `timerExpired` (strict `timer.Before(now)`) /
  `markServers` (`memmetrics.SplitFloat64(1.5, 0, ratings)` over exact rationals) /
  `setMarkedWeights` (good: ×4 iff the result is ≤ 4096) or `convergeWeights` (`max(cur/4, orig)`,
  records with `cur = orig` skipped) / `normalizeWeights` (÷ gcd when > 1) / `applyWeights` / `setTimer`.

Meters are scripted (`Rating()`, `IsReady()` set by the scenario), so "every sequence of ratings" is
every sequence of `rate`/`ready` operations.  Time is `Nat` ns since `hx.Base`; `timer` is an `Int`
(it starts at Go's zero `time.Time` and `reset` puts it one second into the past).
-/
namespace RB
open PoolM RR

def fsmMaxWeight : Nat := 4096
def fsmGrowFactor : Nat := 4
def second : Nat := 1000000000
/-- Go's zero `time.Time` (the initial `rb.timer`) in ns relative to `hx.Base` = 2020-01-01T00:00:00Z -/
def zeroTime : Int := -(63713433600 * 1000000000)

/-- `rbServer`; `rating`/`ready` = what the record's meter answers now -/
structure Rec where
  url    : URL
  orig   : Nat
  cur    : Nat
  rating : Rat
  ready  : Bool
deriving Repr

def Rec.key (s : Rec) : Key := s.url.key

def increase (w : Nat) : Nat := w * fsmGrowFactor

def decrease (target current : Nat) : Nat :=
  let adjusted := current / fsmGrowFactor
  if adjusted < target then target else adjusted

/-! ### `memmetrics/anomaly.go` over exact rationals -/

/-- `sort.Float64s` on a copy: ascending order (insertion sort: structural, so that it evaluates
    inside proofs; any sort yields the same list on a total order) -/
def insertRat (x : Rat) : List Rat → List Rat
  | [] => [x]
  | y :: ys => if x ≤ y then x :: y :: ys else y :: insertRat x ys

def sortRat (l : List Rat) : List Rat := l.foldr insertRat []

/-- `median`: middle element of the sorted copy; mean of the two middle ones for even counts -/
def median (values : List Rat) : Rat :=
  let vals := sortRat values
  let l := vals.length
  if l % 2 ≠ 0 then vals.getD (l / 2) 0
  else (vals.getD (l / 2 - 1) 0 + vals.getD (l / 2) 0) / 2

def medianAbsoluteDeviation (values : List Rat) : Rat :=
  let m := median values
  median (values.map fun v => Rat.abs (v - m))

/-- the cut `(m + mAbs) * threshold`, with the sentinel appended for even counts -/
def splitCut (threshold sentinel : Rat) (values : List Rat) : Rat :=
  let newValues := if values.length % 2 = 0 then values ++ [sentinel] else values
  (median newValues + medianAbsoluteDeviation newValues) * threshold

/-- `SplitFloat64`: the keys of the `good` and of the `bad` map -/
def splitFloat64 (threshold sentinel : Rat) (values : List Rat) : List Rat × List Rat :=
  let cut := splitCut threshold sentinel values
  (values.filter (fun v => !decide (v > cut)), values.filter (fun v => decide (v > cut)))

def splitThreshold : Rat := 3 / 2

/-- `markServers`: the `good` flag of every record (`g[rating]`: the map is keyed by the rating
    *value*) and the return value `len(g) != 0 && len(b) != 0` -/
def markServers (ratings : List Rat) : List Bool × Bool :=
  let gb := splitFloat64 splitThreshold 0 ratings
  (ratings.map (fun v => gb.1.contains v), !gb.1.isEmpty && !gb.2.isEmpty)

/-! ### weight arithmetic -/

/-- `weightsGcd` (the `divisor == -1` sentinel takes the first weight as is: `gcd 0 w = w`) -/
def gcdCur (ps : List Rec) : Nat := ps.foldl (fun d p => Nat.gcd d p.cur) 0

/-- `normalizeWeights` -/
def normalize (ps : List Rec) : List Rec :=
  let g := gcdCur ps
  if g ≤ 1 then ps else ps.map (fun p => { p with cur := p.cur / g })

/-- the loop of `convergeWeights`, one record -/
def convergeRec (p : Rec) : Rec := if p.orig = p.cur then p else { p with cur := decrease p.orig p.cur }

/-- `convergeWeights` without `applyWeights`: new records and `changed` -/
def converge (ps : List Rec) : List Rec × Bool :=
  if ps.any (fun p => p.orig != p.cur) then (normalize (ps.map convergeRec), true) else (ps, false)

/-- a good record takes the ×4 step iff the result is `<= FSMMaxWeight` -/
def grows (p : Rec) (good : Bool) : Bool := good && decide (increase p.cur ≤ fsmMaxWeight)

def markRec (q : Rec × Bool) : Rec := if grows q.1 q.2 then { q.1 with cur := increase q.1.cur } else q.1

/-- `setMarkedWeights` without `applyWeights`, on records paired with their `good` flag -/
def setMarked (ps : List (Rec × Bool)) : List Rec × Bool :=
  if ps.any (fun q => grows q.1 q.2) then (normalize (ps.map markRec), true) else (ps.map (·.1), false)

/-! ### the rebalancer -/

structure Reb where
  bal      : Bal
  servers  : List Rec
  timer    : Int
  backoff  : Nat
  /-- `IsReady()` of a newly created (scripted) meter; its `Rating()` is 0 -/
  newReady : Bool
deriving Repr

namespace Reb

def init (backoff : Nat) (newReady : Bool) : Reb :=
  ⟨Bal.empty, [], zeroTime, if backoff = 0 then 10 * second else backoff, newReady⟩

/-- `findServer` -/
def find (r : Reb) (k : Key) : Option Nat := (r.servers.map Rec.key).idxOf? k

/-- `applyWeights` -/
def applyWeights (b : Bal) (ps : List Rec) : Bal := ps.foldl (fun b s => b.upsert s.url (some s.cur)) b

def reset (r : Reb) (now : Nat) : Reb :=
  let servers := r.servers.map fun s => { s with cur := s.orig }
  { r with servers := servers, bal := applyWeights r.bal servers, timer := (now : Int) - second }

/-- the options applied to the scratch `server{weight: origWeight}` -/
def configuredOf (orig : Nat) : Option Nat → Nat
  | some w => w
  | none => orig

/-- `UpsertServer(u, opts…)` with a non-negative weight option (the negative one fails in
    `next.UpsertServer` before anything is touched) -/
def upsert (r : Reb) (now : Nat) (u : URL) (w : Option Nat) : Reb :=
  -- an existing record: the options are applied to a scratch `server{weight: origWeight}` and
  -- replaced by the single option `Weight(configured.weight)` (the balancer holds the effective weight)
  let w : Option Nat := match r.find u.key with
    | some i => some (configuredOf ((r.servers.map (·.orig)).getD i 0) w)
    | none => w
  let bal := r.bal.upsert u w
  -- `weight, _ := rb.next.ServerWeight(u)`: found, because the upsert succeeded
  let weight := (bal.weight u.key).getD 0
  let servers := match r.find u.key with
    | some i => r.servers.modify i (fun s => { s with orig := weight })
    | none => r.servers ++ [{ url := u, orig := weight, cur := weight, rating := 0, ready := r.newReady }]
  ({ r with bal := bal, servers := servers }).reset now

/-- `UpsertServer(u, opts…)` for a server without a record when `newMeter()` returns an error: the
    balancer insert is rolled back (`_ = rb.next.RemoveServer(u)`) and the error returned; `reset()` is
    not reached -/
def upsertMeterFails (r : Reb) (u : URL) (w : Option Nat) : Reb :=
  let bal := r.bal.upsert u w
  { r with bal := (bal.remove u).getD bal }

/-- `RemoveServer(u)`; `none` = error, nothing touched -/
def remove (r : Reb) (now : Nat) (u : URL) : Option Reb :=
  match r.find u.key with
  | none => none
  | some i =>
    match r.bal.remove u with
    | none => none
    | some bal => some (({ r with bal := bal, servers := r.servers.eraseIdx i }).reset now)

def metricsReady (r : Reb) : Bool := r.servers.all (·.ready)

def timerExpired (r : Reb) (now : Nat) : Bool := decide (r.timer < (now : Int))

def marks (r : Reb) : List Bool × Bool := markServers (r.servers.map (·.rating))

/-- the new records and `changed` of the branch `adjustWeights` takes -/
def newWeights (r : Reb) : List Rec × Bool :=
  let m := r.marks
  if m.2 then setMarked (r.servers.zip m.1) else converge r.servers

/-- `adjustWeights()` at time `now` -/
def adjust (r : Reb) (now : Nat) : Reb :=
  if r.servers.length < 2 then r
  else if !r.metricsReady then r
  else if !r.timerExpired now then r
  else
    let nw := r.newWeights
    if nw.2 then
      { r with servers := nw.1, bal := applyWeights r.bal nw.1, timer := (now : Int) + r.backoff }
    else r

def setRating (r : Reb) (k : Key) (v : Rat) : Option Reb :=
  match r.find k with
  | some i => some { r with servers := r.servers.modify i (fun s => { s with rating := v }) }
  | none => none

def setReady (r : Reb) (k : Key) (v : Bool) : Option Reb :=
  match r.find k with
  | some i => some { r with servers := r.servers.modify i (fun s => { s with ready := v }) }
  | none => none

end Reb

/-! ## The system under test: a bare `RoundRobin` or a `Rebalancer` over a `RoundRobin` -/

structure Sys where
  /-- administration and requests go through the rebalancer -/
  viaRb  : Bool
  /-- a `StickySession` is configured on the front handler -/
  sticky : Bool
  reb    : Reb
  now    : Nat
deriving Repr

inductive Op where
  | upsert (u : URL) (w : Option Int)
  /-- add / update (non-negative weight) during which the meter factory fails (`NewMeterFn` returns an
      error): only an add through the rebalancer of a server it has no record of creates a meter -/
  | upsertFailing (u : URL) (w : Option Nat)
  | remove (u : URL)
  /-- `NextServer()` of the balancer -/
  | next
  /-- one `ServeHTTP` of the front handler: sticky cookie value, what the downstream handler does -/
  | serve (cookie : Option Key) (mt : Option Mut)
  | rate (k : Key) (v : Rat)
  | ready (k : Key) (v : Bool)
  | adv (ns : Nat)
deriving Repr

inductive Out where
  | ok
  | errNegWeight
  | errNotFound
  /-- the meter factory's error, returned by `UpsertServer` -/
  | errMeter
  /-- `NextServer()` result: the value of the returned URL -/
  | next (r : Res) (u : Option URL)
  /-- request forwarded: value of `req.URL` as the downstream handler received it; is it an object
      of its own (not one of the pool's) -/
  | forwarded (u : URL) (fresh : Bool)
  /-- error response, downstream handler not called -/
  | failed (e : Res)
deriving Repr, DecidableEq

namespace Sys

def init (viaRb sticky : Bool) (backoff : Nat) (newReady : Bool) : Sys :=
  ⟨viaRb, sticky, Reb.init backoff newReady, 0⟩

def bal (s : Sys) : Bal := s.reb.bal

def withBal (s : Sys) (b : Bal) : Sys := { s with reb := { s.reb with bal := b } }

def step (s : Sys) : Op → Sys × Out
  | .upsert u w =>
    match w with
    | some (.negSucc _) => (s, .errNegWeight)
    | some (.ofNat w) =>
      (if s.viaRb then { s with reb := s.reb.upsert s.now u (some w) } else s.withBal (s.bal.upsert u (some w)), .ok)
    | none =>
      (if s.viaRb then { s with reb := s.reb.upsert s.now u none } else s.withBal (s.bal.upsert u none), .ok)
  | .upsertFailing u w =>
    if s.viaRb && (s.reb.find u.key).isNone then
      ({ s with reb := s.reb.upsertMeterFails u w }, .errMeter)
    else
      (if s.viaRb then { s with reb := s.reb.upsert s.now u w } else s.withBal (s.bal.upsert u w), .ok)
  | .remove u =>
    if s.viaRb then
      match s.reb.remove s.now u with
      | some r => ({ s with reb := r }, .ok)
      | none => (s, .errNotFound)
    else
      match s.bal.remove u with
      | some b => (s.withBal b, .ok)
      | none => (s, .errNotFound)
  | .next =>
    let r := s.bal.nextServer
    (s.withBal r.2.2, .next r.1 (r.2.1.map r.2.2.deref))
  | .serve cookie mt =>
    let rt := s.bal.route s.sticky cookie
    match rt.1 with
    | .err e => (s.withBal rt.2, .failed e)
    | .fwd ref _ =>
      let seen := rt.2.deref ref
      let fresh := !rt.2.refs.contains ref
      let s1 := s.withBal (rt.2.mutate ref mt)
      -- `recordMetrics` only feeds the meters (scripted here); then `adjustWeights()`
      (if s.viaRb then { s1 with reb := s1.reb.adjust s.now } else s1, .forwarded seen fresh)
  | .rate k v =>
    match s.reb.setRating k v with
    | some r => ({ s with reb := r }, .ok)
    | none => (s, .errNotFound)
  | .ready k v =>
    match s.reb.setReady k v with
    | some r => ({ s with reb := r }, .ok)
    | none => (s, .errNotFound)
  | .adv ns => ({ s with now := s.now + ns }, .ok)

def applyOps (s : Sys) (ops : List Op) : Sys := ops.foldl (fun s o => (s.step o).1) s

/-- the outputs of a history -/
def outs (s : Sys) : List Op → List Out
  | [] => []
  | o :: ops => (s.step o).2 :: outs (s.step o).1 ops

/-- `Servers()` -/
def servers (s : Sys) : List URL := s.bal.urls

/-- `ServerWeight` of every server, in pool order -/
def weights (s : Sys) : List (URL × Nat) := s.bal.urls.zip s.bal.ws

end Sys

end RB
