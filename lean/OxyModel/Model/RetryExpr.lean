/-!
# Retry expressions of `buffer.Retry(...)` (buffer/threshold.go), core Lean only

The expression language accepted by `parseExpression`: the `predicate` library walks the Go AST and
calls the registered operator functions `and or eq neq lt gt le ge` (no `NOT` is registered, so `!e`
is rejected) and the functions `Attempts() ResponseCode() IsNetworkError() RequestMethod()`.
`eq/neq` accept an int mapper with an int literal or the string mapper with a string literal;
`lt gt le ge` accept only the int mappers.  Every well-typed expression is therefore a value of `Expr`.

`compile` follows the Go combinators as they are written: `and`/`or` are loops over the operand
slice, `neq = not eq`, `le = lt || eq`, `ge = gt || eq`.
-/
namespace RetryExpr

/-- `context` of threshold.go: `attempt`, `responseCode`, and the method of `r`. -/
structure Ctx where
  attempt : Nat
  code : Nat
  method : String
deriving Repr, DecidableEq

inductive IntFn where
  | attempts | responseCode
deriving Repr, DecidableEq

inductive Cmp where
  | eq | neq | lt | gt | le | ge
deriving Repr, DecidableEq

inductive Expr where
  | and (a b : Expr)
  | or (a b : Expr)
  | isNetworkError
  | cmp (f : IntFn) (c : Cmp) (v : Nat)
  | methodEq (s : String)
  | methodNeq (s : String)
deriving Repr, DecidableEq

abbrev Pred := Ctx → Bool

/-- `attempts()` / `responseCode()` mappers -/
def IntFn.get : IntFn → Ctx → Nat
  | .attempts, c => c.attempt
  | .responseCode, c => c.code

def intEQ (m : Ctx → Nat) (v : Nat) : Pred := fun c => m c == v
def intLT (m : Ctx → Nat) (v : Nat) : Pred := fun c => decide (m c < v)
def intGT (m : Ctx → Nat) (v : Nat) : Pred := fun c => decide (m c > v)
def stringEQ (m : Ctx → String) (v : String) : Pred := fun c => m c == v
def notP (p : Pred) : Pred := fun c => !p c

/-- `func and(fns ...hpredicate)`: `for _, fn := range fns { if !fn(c) { return false } }; return true` -/
def andP : List Pred → Pred
  | [], _ => true
  | fn :: rest, c => if !fn c then false else andP rest c

/-- `func or(fns ...hpredicate)`: `for … { if fn(c) { return true } }; return false` -/
def orP : List Pred → Pred
  | [], _ => false
  | fn :: rest, c => if fn c then true else orP rest c

/-- `isNetworkError()`: 502 or 504 -/
def isNetworkErrorP : Pred := fun c => c.code == 502 || c.code == 504

def cmpP (m : Ctx → Nat) (v : Nat) : Cmp → Pred
  | .eq => intEQ m v
  | .neq => notP (intEQ m v)
  | .lt => intLT m v
  | .gt => intGT m v
  | .le => fun c => intLT m v c || intEQ m v c
  | .ge => fun c => intGT m v c || intEQ m v c

/-- the predicate built by the parser for a well-typed expression -/
def compile : Expr → Pred
  | .and a b => andP [compile a, compile b]
  | .or a b => orP [compile a, compile b]
  | .isNetworkError => isNetworkErrorP
  | .cmp f c v => cmpP f.get v c
  | .methodEq s => stringEQ (fun c => c.method) s
  | .methodNeq s => notP (stringEQ (fun c => c.method) s)

end RetryExpr
