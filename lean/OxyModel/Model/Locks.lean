/-!
# C09 — lock discipline: RW-lock semantics, happens-before, races, counters, lock facts (core Lean only)

Mirror of what `sync.Mutex` / `sync.RWMutex` guarantee (Go memory model, "Locks"): `Lock` returns only
when nobody holds the lock, `RLock` only when no writer holds it; the n-th `Unlock` is synchronised
before a later `Lock`/`RLock` returns, an `RUnlock` before a later `Lock`.  An execution is the
interleaved list of the events of all threads.  Threads, locks and variables are numbered.
-/
namespace Locks

/-- one event of an execution -/
inductive Ev where
  /-- `Lock()` (`w = true`) or `RLock()` (`w = false`) of lock `ℓ` returns in thread `t` -/
  | acq (t ℓ : Nat) (w : Bool)
  /-- `Unlock()` / `RUnlock()` -/
  | rel (t ℓ : Nat) (w : Bool)
  /-- read (`w = false`) or write (`w = true`) of shared variable `v` -/
  | acc (t v : Nat) (w : Bool)
deriving Repr, DecidableEq

def Ev.thread : Ev → Nat
  | .acq t _ _ => t
  | .rel t _ _ => t
  | .acc t _ _ => t

/-- state of one RW lock -/
structure LS where
  writer  : Option Nat
  readers : List Nat
deriving Repr, DecidableEq

/-- state of all locks -/
abbrev St := Nat → LS

def St.init : St := fun _ => ⟨none, []⟩

def upd (σ : St) (ℓ : Nat) (s : LS) : St := fun k => if k = ℓ then s else σ k

/-- lock semantics; `none` = this event cannot happen here (the call would still be blocked, or it
    releases a lock that is not held) -/
def step (σ : St) : Ev → Option St
  | .acq t ℓ true =>
    if (σ ℓ).writer = none ∧ (σ ℓ).readers = [] then some (upd σ ℓ { σ ℓ with writer := some t }) else none
  | .acq t ℓ false =>
    if (σ ℓ).writer = none then some (upd σ ℓ { σ ℓ with readers := t :: (σ ℓ).readers }) else none
  | .rel t ℓ true =>
    if (σ ℓ).writer = some t then some (upd σ ℓ { σ ℓ with writer := none }) else none
  | .rel t ℓ false =>
    if t ∈ (σ ℓ).readers then some (upd σ ℓ { σ ℓ with readers := (σ ℓ).readers.erase t }) else none
  | .acc _ _ _ => some σ

def run : St → List Ev → Option St
  | σ, [] => some σ
  | σ, e :: es => match step σ e with
    | none => none
    | some σ' => run σ' es

/-- executions the lock implementation admits -/
def WellFormed (es : List Ev) : Prop := ∃ σ, run St.init es = some σ

def holdsW (σ : St) (t ℓ : Nat) : Prop := (σ ℓ).writer = some t
def holdsR (σ : St) (t ℓ : Nat) : Prop := t ∈ (σ ℓ).readers
def holdsAny (σ : St) (t ℓ : Nat) : Prop := holdsW σ t ℓ ∨ holdsR σ t ℓ

/-- what an access needs: exclusive mode for a write, any mode for a read -/
def holdsFor (σ : St) (t ℓ : Nat) (w : Bool) : Prop := if w then holdsW σ t ℓ else holdsAny σ t ℓ

/-- "every access to `v` happens while the accessing thread holds `ℓ`, exclusively if it writes" -/
def Guarded (ℓ v : Nat) (es : List Ev) : Prop :=
  ∀ (pre post : List Ev) (t : Nat) (w : Bool) (σ : St),
    es = pre ++ Ev.acc t v w :: post → run St.init pre = some σ → holdsFor σ t ℓ w

/-- happens-before between positions of an execution: program order, an unlock and a later lock of the
    same lock (at least one of the two in exclusive mode), transitivity -/
inductive HB (es : List Ev) : Nat → Nat → Prop
  | po {i j : Nat} {a b : Ev} : i < j → es[i]? = some a → es[j]? = some b → a.thread = b.thread → HB es i j
  | sw {i j t t' ℓ : Nat} {m m' : Bool} : i < j → es[i]? = some (.rel t ℓ m) → es[j]? = some (.acq t' ℓ m') →
      (m = true ∨ m' = true) → HB es i j
  | trans {i j k : Nat} : HB es i j → HB es j k → HB es i k

/-- a data race on `v`: two accesses by different threads, at least one a write, not ordered -/
def Race (es : List Ev) (v : Nat) : Prop :=
  ∃ (i j t1 t2 : Nat) (w1 w2 : Bool), i < j ∧ es[i]? = some (.acc t1 v w1) ∧ es[j]? = some (.acc t2 v w2) ∧
    t1 ≠ t2 ∧ (w1 = true ∨ w2 = true) ∧ ¬ HB es i j

/-! ## Counters: an increment is a load followed by a store of the loaded value plus one -/

inductive CEv where
  | acqW (t : Nat) | relW (t : Nat)
  /-- thread `t` loads the counter into its register -/
  | ld (t : Nat)
  /-- thread `t` stores register + 1 -/
  | st (t : Nat)
deriving Repr, DecidableEq

structure CS where
  writer : Option Nat
  mem    : Nat
  reg    : Nat → Option Nat

def CS.init : CS := ⟨none, 0, fun _ => none⟩

def setReg (r : Nat → Option Nat) (t : Nat) (x : Option Nat) : Nat → Option Nat := fun k => if k = t then x else r k

/-- `d = true`: the discipline is enforced (load and store only while holding the lock exclusively, and
    the lock is not given up between the load and the store of one increment); `d = false`: plain
    memory semantics, used to show that the model can lose updates -/
def cstep (d : Bool) (s : CS) : CEv → Option CS
  | .acqW t => if s.writer = none then some { s with writer := some t } else none
  | .relW t => if s.writer = some t ∧ (d = true → s.reg t = none) then some { s with writer := none } else none
  | .ld t => if (d = true → s.writer = some t) ∧ s.reg t = none then some { s with reg := setReg s.reg t (some s.mem) } else none
  | .st t => match s.reg t with
    | none => none
    | some x => if d = true → s.writer = some t then some { s with mem := x + 1, reg := setReg s.reg t none } else none

def crun (d : Bool) : CS → List CEv → Option CS
  | s, [] => some s
  | s, e :: es => match cstep d s e with
    | none => none
    | some s' => crun d s' es

def CEv.isStore : CEv → Bool
  | .st _ => true
  | _ => false

/-- completed increments of an execution -/
def increments (es : List CEv) : Nat := (es.filter CEv.isStore).length

/-! ## Lock facts (produced by the translator) and the discipline checker -/

/-- one access site: variable, write?, kind, locks held there `(lock, exclusive?)`, `file:line`.
    kind: 0 read, 1 read-modify-write within one statement (`x.f++`, `x.f += e`, `x.f = g(x.f)`),
    2 plain store, 3 split update (the stored value, or the decision to store, derives from a load of
    the same variable made in another critical section of its lock) -/
structure Fact where
  var   : Nat
  write : Bool
  kind  : Nat
  locks : List (Nat × Bool)
  site  : String
deriving Repr

/-- the site holds `ℓ` in a mode sufficient for its kind of access -/
def Fact.holds (f : Fact) (ℓ : Nat) : Bool := f.locks.any fun p => Nat.beq p.1 ℓ && (p.2 || !f.write)

def minOf : List Nat → Option Nat
  | [] => none
  | x :: xs => some (xs.foldl Nat.min x)

/-- the smallest lock that guards every access of a group of facts (all facts of one variable);
    `none` if there is no such lock (or the group is empty) -/
def groupLock (g : List Fact) : Option Nat :=
  match g with
  | [] => none
  | f :: _ => minOf ((f.locks.map (·.1)).filter fun ℓ => g.all fun h => h.holds ℓ)

/-- the generated table comes grouped by variable: group `i` holds exactly the facts of variable `i` -/
def checkGroups : Nat → List (List Fact) → Bool
  | _, [] => true
  | i, g :: gs => (g.all fun f => Nat.beq f.var i) && (groupLock g).isSome && checkGroups (i + 1) gs

def factsOf (fs : List Fact) (v : Nat) : List Fact := fs.filter fun f => Nat.beq f.var v

/-- verdict for one variable of an ungrouped table (what the driver prints) -/
def checkVar (fs : List Fact) (v : Nat) : Option Nat := groupLock (factsOf fs v)

/-- lock `ℓ` is held at every listed access of `v`, exclusively at every write -/
def DisciplinedBy (fs : List Fact) (v ℓ : Nat) : Prop :=
  ∀ f ∈ fs, f.var = v → ∃ m, (ℓ, m) ∈ f.locks ∧ (f.write = true → m = true)

def Disciplined (fs : List Fact) (v : Nat) : Prop := ∃ ℓ, DisciplinedBy fs v ℓ

/-- an execution behaves as the facts say: each access is one of the listed sites of its variable and
    the thread holds that site's locks in (at least) the listed modes -/
def Conforms (fs : List Fact) (es : List Ev) : Prop :=
  ∀ (pre post : List Ev) (t v : Nat) (w : Bool) (σ : St),
    es = pre ++ Ev.acc t v w :: post → run St.init pre = some σ →
    ∃ f ∈ fs, f.var = v ∧ f.write = w ∧ ∀ p ∈ f.locks, if p.2 then holdsW σ t p.1 else holdsAny σ t p.1

/-- an execution over lock and variable *instances* behaves as the (class level) facts say: `vcls`
    maps a variable instance to its class (the fact's variable), `obj` to the object instance it lives
    in, `lockOf o c` is the instance of lock class `c` that belongs to object `o` -/
def ConformsI (fs : List Fact) (vcls obj : Nat → Nat) (lockOf : Nat → Nat → Nat) (es : List Ev) : Prop :=
  ∀ (pre post : List Ev) (t v : Nat) (w : Bool) (σ : St),
    es = pre ++ Ev.acc t v w :: post → run St.init pre = some σ →
    ∃ f ∈ fs, f.var = vcls v ∧ f.write = w ∧
      ∀ p ∈ f.locks, if p.2 then holdsW σ t (lockOf (obj v) p.1) else holdsAny σ t (lockOf (obj v) p.1)

/-! ## Values: when is no update lost?  Plain memory semantics of one variable, no discipline built in:
a read loads the variable into the reading thread's register, a write stores (register + 1). -/

structure VS where
  mem : Nat
  reg : Nat → Option Nat

def VS.init : VS := ⟨0, fun _ => none⟩

def vstep (v : Nat) (s : VS) : Ev → VS
  | .acc t v' false => if v' = v then { s with reg := setReg s.reg t (some s.mem) } else s
  | .acc t v' true => if v' = v then { s with mem := (s.reg t).getD 0 + 1 } else s
  | _ => s

def vrun (v : Nat) : VS → List Ev → VS
  | s, [] => s
  | s, e :: es => vrun v (vstep v s e) es

def Ev.isWriteTo (v : Nat) : Ev → Bool
  | .acc _ v' true => v' == v
  | _ => false

/-- number of updates of `v` performed in the execution -/
def writesTo (v : Nat) (es : List Ev) : Nat := (es.filter (Ev.isWriteTo v)).length

/-- every write to `v` is the store half of a read-modify-write whose load happened earlier in the same
    critical section of `ℓ`: the writing thread held `ℓ` exclusively at the load, did not release it and
    did not store to `v` in between -/
def AtomicUpdates (ℓ v : Nat) (es : List Ev) : Prop :=
  ∀ (pre post : List Ev) (t : Nat), es = pre ++ Ev.acc t v true :: post →
    ∃ (p1 mid : List Ev) (σ : St), pre = p1 ++ Ev.acc t v false :: mid ∧ run St.init p1 = some σ ∧
      holdsW σ t ℓ ∧ (∀ m, Ev.rel t ℓ m ∉ mid) ∧ Ev.acc t v true ∉ mid

/-- all write sites of `v` are one-statement read-modify-writes holding `ℓ` exclusively -/
def UpdatesAtomicBy (fs : List Fact) (v ℓ : Nat) : Prop :=
  ∀ f ∈ fs, f.var = v → f.write = true → f.kind = 1 ∧ (ℓ, true) ∈ f.locks

def IsCounter (fs : List Fact) (v : Nat) : Prop := ∀ f ∈ fs, f.var = v → f.write = true → f.kind = 1

def isCounterB (fs : List Fact) (v : Nat) : Bool := fs.all fun f => !(Nat.beq f.var v) || !f.write || Nat.beq f.kind 1

def noSplitB (fs : List Fact) : Bool := fs.all fun f => !(Nat.beq f.kind 3)

/-- what "behaves as the facts say" means for update sites: a write event belongs to a listed write site
    whose locks the thread holds; if that site is a one-statement read-modify-write (kind 1), the
    statement's load precedes it in the same thread with the site's locks held at the load, none of them
    released and no other store to the variable by this thread in between -/
def ConformsU (fs : List Fact) (es : List Ev) : Prop :=
  ∀ (pre post : List Ev) (t v : Nat) (σ : St),
    es = pre ++ Ev.acc t v true :: post → run St.init pre = some σ →
    ∃ f ∈ fs, f.var = v ∧ f.write = true ∧
      (f.kind = 1 → ∃ (p1 mid : List Ev) (σ1 : St), pre = p1 ++ Ev.acc t v false :: mid ∧ run St.init p1 = some σ1 ∧
        (∀ p ∈ f.locks, if p.2 then holdsW σ1 t p.1 else holdsAny σ1 t p.1) ∧
        (∀ p ∈ f.locks, ∀ m, Ev.rel t p.1 m ∉ mid) ∧ Ev.acc t v true ∉ mid)

end Locks
