import OxyModel.Model.Counter
import OxyModel.Model.CBExpr

/-!
# Model of `cbreaker.CircuitBreaker` (core Lean only)

Follows `/repo/cbreaker/cbreaker.go`, `ratio.go` and `/repo/memmetrics/roundtrip.go` branch by branch.

* Time is `Nat` nanoseconds since Go's zero `time.Time` (as in `Model/Counter.lean`); `lastCheck = 0`
  is the zero `Time` of a fresh breaker.
* Atomic steps: `arrive now` = the decision of `activateFallback` for one request under
  `CircuitBreaker.m` (`pass` = handed to the protected handler, `fallback` = answered by the fallback
  handler — such a request records no metrics and evaluates nothing); and what `serve` does after the
  protected handler returned, in **two** steps because only the second takes `CircuitBreaker.m`:
  `record now code` = `metrics.Record(code, latency)` (under `RTMetrics`' own locks) and
  `check now orc` = `checkAndSet()`.  `complete now code orc` is the two run back to back.  Overlapping
  requests are interleavings of these steps, e.g. `record_A record_B check_B check_A`.
* `RTMetrics`: `total`, `netErrors` (502/504) and one lazily created counter per status code, all
  `NewCounter(10, 1s)` (`counterBuckets`, `counterResolution`); the latency histogram is not modelled:
  `orc` carries, per quantile literal of the condition, the value `LatencyAtQuantileMS` returns at
  this instant (oracle for `hdrhistogram`, supplied by the harness).
* `allowRequest`'s float test `(allowed+1)/(allowed+denied+1) < 0.5/dur · elapsed` is the exact
  cross-multiplied `2·dur·(allowed+1) < elapsed·(allowed+denied+1)`.
* Side effects are launched in goroutines by `setState`; the model counts launches.
-/
namespace CB
open CBExpr

inductive State where
  | standby | tripped | recovering
deriving Repr, DecidableEq

structure Cfg where
  fallbackDur : Nat
  recoveryDur : Nat
  checkPeriod : Nat
  cond : Expr
deriving Repr

/-- `ratioController` -/
structure RC where
  start   : Nat
  dur     : Nat
  allowed : Nat
  denied  : Nat
deriving Repr, DecidableEq

/-! ### `memmetrics.RTMetrics` -/

/-- `NewCounter(counterBuckets, counterResolution)` -/
def ccfg : RCnt.Cfg := ⟨10, RCnt.second⟩

structure Metrics where
  total : RCnt.St
  netErrors : RCnt.St
  codes : List (Nat × RCnt.St)        -- `statusCodes map[int]*RollingCounter`
deriving Repr, DecidableEq

/-- `NewRTMetrics()`; also the result of `Reset()` up to the counters' lengths -/
def Metrics.init : Metrics := ⟨RCnt.St.init ccfg, RCnt.St.init ccfg, []⟩

/-- `recordStatusCode` -/
def recordCode (now code : Nat) : List (Nat × RCnt.St) → List (Nat × RCnt.St)
  | [] => [(code, RCnt.inc ccfg (RCnt.St.init ccfg) now 1)]
  | (k, s) :: rest =>
    if k = code then (k, RCnt.inc ccfg s now 1) :: rest else (k, s) :: recordCode now code rest

/-- `Record(code, duration)` (the histogram part is the oracle's) -/
def Metrics.record (m : Metrics) (now code : Nat) : Metrics :=
  { total := RCnt.inc ccfg m.total now 1
    netErrors := if code = 504 ∨ code = 502 then RCnt.inc ccfg m.netErrors now 1 else m.netErrors
    codes := recordCode now code m.codes }

/-- `Reset()`: `total.Reset()`, `netErrors.Reset()`, `statusCodes = make(map…)` -/
def Metrics.reset (m : Metrics) : Metrics :=
  ⟨RCnt.reset m.total, RCnt.reset m.netErrors, []⟩

/-- `NetworkErrorRatio()`: `if total.Count() == 0 { return 0 }; return netErrors.Count() / total.Count()` -/
def Metrics.ner (now : Nat) (m : Metrics) : Metrics × Val :=
  let t1 := RCnt.count ccfg m.total now
  if t1.2 = 0 then ({ m with total := t1.1 }, .ratio 0 1)
  else
    let ne := RCnt.count ccfg m.netErrors now
    let t2 := RCnt.count ccfg t1.1 now
    ({ m with total := t2.1, netErrors := ne.1 }, .ratio ne.2 t2.2)

/-- one iteration of the loop of `ResponseCodeRatio` on the counter of status code `k`:
    `if code < endA && code >= startA { a += v.Count() }; if code < endB && code >= startB { b += v.Count() }` -/
def rcrOne (now a0 a1 b0 b1 k : Nat) (s : RCnt.St) : RCnt.St × Int × Int :=
  let ra := if k < a1 ∧ k ≥ a0 then RCnt.count ccfg s now else (s, 0)
  let rb := if k < b1 ∧ k ≥ b0 then RCnt.count ccfg ra.1 now else (ra.1, 0)
  (rb.1, ra.2, rb.2)

/-- the loop of `ResponseCodeRatio` over the status-code counters: new counters, `a`, `b` -/
def rcrLoop (now a0 a1 b0 b1 : Nat) : List (Nat × RCnt.St) → List (Nat × RCnt.St) × Int × Int
  | [] => ([], 0, 0)
  | (k, s) :: rest =>
    let o := rcrOne now a0 a1 b0 b1 k s
    let r := rcrLoop now a0 a1 b0 b1 rest
    ((k, o.1) :: r.1, o.2.1 + r.2.1, o.2.2 + r.2.2)

/-- `ResponseCodeRatio(startA, endA, startB, endB)`: `if b != 0 { return a / b }; return 0` -/
def Metrics.rcr (now a0 a1 b0 b1 : Nat) (m : Metrics) : Metrics × Val :=
  let r := rcrLoop now a0 a1 b0 b1 m.codes
  ({ m with codes := r.1 }, if r.2.2 ≠ 0 then .ratio r.2.1 r.2.2 else .ratio 0 1)

/-- oracle values: quantile literal ↦ `int(h.LatencyAtQuantile(q) / clock.Millisecond)` -/
abbrev Oracle := List (Lit × Nat)

def Oracle.get (orc : Oracle) (q : Lit) : Nat :=
  match orc.find? (fun e => e.1 = q) with
  | some e => e.2
  | none => 0

/-- the mappers of `predicates.go` over the breaker's metrics at instant `now` -/
def reader (now : Nat) (orc : Oracle) : Reader Metrics where
  ner := Metrics.ner now
  rcr := fun a0 a1 b0 b1 => Metrics.rcr now a0 a1 b0 b1
  lat := fun q m => (m, .int (orc.get q))

/-! ### the breaker -/

structure Brk where
  state     : State
  until_    : Nat
  lastCheck : Nat
  rc        : RC
  met       : Metrics
  tripped   : Nat     -- on-tripped side effects launched
  standbys  : Nat     -- on-standby side effects launched
deriving Repr, DecidableEq

/-- `New(next, expression, options…)` -/
def Brk.init : Brk := ⟨.standby, 0, 0, ⟨0, 0, 0, 0⟩, Metrics.init, 0, 0⟩

/-- `New` fails iff `parseExpression` does -/
def new (c : Cfg) : Option Brk := if c.cond.wellTyped then some Brk.init else none

/-- `allowRequest`: `e < t` with `e = (allowed+1)/(allowed+1+denied)`, `t = 0.5/dur · (now − start)` -/
def RC.allow (r : RC) (now : Nat) : Bool × RC :=
  if 2 * r.dur * (r.allowed + 1) < (now - r.start) * (r.allowed + r.denied + 1)
  then (true, { r with allowed := r.allowed + 1 })
  else (false, { r with denied := r.denied + 1 })

inductive Out where
  | pass | fallback
deriving Repr, DecidableEq

/-- `case stateRecovering:` of `activateFallback` -/
def recoveringCase (b : Brk) (now : Nat) : Out × Brk :=
  if now > b.until_ then      -- `clock.Now().After(c.until)`: `setState(stateStandby, now)`
    (.pass, { b with state := .standby, until_ := now, standbys := b.standbys + 1 })
  else
    let r := b.rc.allow now
    (if r.1 then .pass else .fallback, { b with rc := r.2 })

/-- `activateFallback` -/
def arrive (c : Cfg) (b : Brk) (now : Nat) : Out × Brk :=
  match b.state with
  | .standby => (.pass, b)
  | .tripped =>
    if now < b.until_ then (.fallback, b)      -- `clock.Now().Before(c.until)`
    else                                       -- `setRecovering()`, `fallthrough`
      recoveringCase
        { b with state := .recovering, until_ := now + c.recoveryDur, rc := ⟨now, c.recoveryDur, 0, 0⟩ } now
  | .recovering => recoveringCase b now

/-- `checkAndSet` on metrics `m` (already holding this response); the flag says "tripped now" -/
def checkAndSet (c : Cfg) (b : Brk) (now : Nat) (orc : Oracle) : Brk × Bool :=
  if now > b.lastCheck then                    -- `timeToCheck`; `Before(lastCheck)` cannot hold then
    let b1 := { b with lastCheck := now + c.checkPeriod }
    if b1.state = .tripped then (b1, false)
    else
      let r := eval (reader now orc) c.cond b1.met
      if !r.2 then ({ b1 with met := r.1 }, false)
      else
        ({ b1 with state := .tripped, until_ := now + c.fallbackDur, tripped := b1.tripped + 1,
                   met := r.1.reset }, true)
  else (b, false)

/-- `metrics.Record(code, latency)` in `serve`: runs under `RTMetrics`' own locks, **not** under
    `CircuitBreaker.m` — a step of its own -/
def record (b : Brk) (now code : Nat) : Brk := { b with met := b.met.record now code }

/-- the tail of `serve` run without interruption: `metrics.Record(code, latency)`; `checkAndSet()`
    (`= checkAndSet c (record b now code) now orc`, see `complete_eq`) -/
def complete (c : Cfg) (b : Brk) (now code : Nat) (orc : Oracle) : Brk × Bool :=
  checkAndSet c { b with met := b.met.record now code } now orc

theorem complete_eq (c : Cfg) (b : Brk) (now code : Nat) (orc : Oracle) :
    complete c b now code orc = checkAndSet c (record b now code) now orc := rfl

/-! ### traces -/

inductive Ev where
  | arrive (now : Nat)
  | record (now code : Nat)                      -- `Record` of a completing request
  | check (now : Nat) (orc : Oracle)             -- its `checkAndSet`, possibly after other requests' steps
  | complete (now code : Nat) (orc : Oracle)     -- `record` and `check` with nothing in between
deriving Repr

def Ev.time : Ev → Nat
  | .arrive t => t
  | .record t _ => t
  | .check t _ => t
  | .complete t _ _ => t

/-- what an event shows: the answer to an arriving request, or whether a completion tripped the breaker -/
inductive Obs where
  | pass | fallback
  | recorded
  | done (tripped : Bool)
deriving Repr, DecidableEq

def step (c : Cfg) (b : Brk) : Ev → Brk × Obs
  | .arrive t =>
    let r := arrive c b t
    (r.2, match r.1 with | .pass => .pass | .fallback => .fallback)
  | .record t code => (record b t code, .recorded)
  | .check t orc =>
    let r := checkAndSet c b t orc
    (r.1, .done r.2)
  | .complete t code orc =>
    let r := complete c b t code orc
    (r.1, .done r.2)

/-- the breaker after a trace, and the observations in order -/
def run (c : Cfg) : Brk → List Ev → Brk × List Obs
  | b, [] => (b, [])
  | b, e :: es =>
    let r := step c b e
    let r2 := run c r.1 es
    (r2.1, r.2 :: r2.2)

/-- the states after each event of a trace -/
def states (c : Cfg) : Brk → List Ev → List Brk
  | _, [] => []
  | b, e :: es => (step c b e).1 :: states c (step c b e).1 es

end CB
