-- Root of the `OxyModel` library: every property file (and through them models and proofs).
import OxyModel.Proofs.RR.Period
